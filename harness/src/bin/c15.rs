//! C15: version-alignment and criticality rules on every path.
use std::io::Read;

use pgp::composed::{decrypt_session_key_with_password, Deserializable, DecryptionOptions, KeyType, Message, MessageBuilder, PlainSessionKey, SignedPublicKey, SignedSecretKey, TheRing};
use pgp::crypto::aead::{AeadAlgorithm, ChunkSize};
use pgp::crypto::hash::HashAlgorithm;
use pgp::crypto::sym::SymmetricKeyAlgorithm;
use pgp::packet::{Packet, PacketParser, PublicKeyEncryptedSessionKey, Signature, SignatureConfig, SignatureType, Subpacket, SubpacketData, SymKeyEncryptedSessionKey};
use pgp::ser::Serialize;
use pgp::types::{KeyDetails, KeyVersion, Password, StringToKey, Tag, Timestamp};
use vh::keys::{gen_key, gen_key_with_subkey, RecKey};
use vh::*;

struct Ctx { out: Out, rng: Rng }

fn packets_of(bytes: &[u8]) -> Vec<Packet> { PacketParser::new(bytes).flatten().collect() }

/// build a signature from a configuration without going through the signing checks: the recording key
/// tells us the digest the library computes while verifying; None when the library refuses before hashing
fn forge(cfg: &SignatureConfig, key: &RecKey, data: &[u8]) -> Option<Signature> {
    // RFC 9580 5.2.4 for a document signature, computed here: salt (v6) || data || trailer
    use sha2::{Digest, Sha256};
    let v6 = cfg.version() == pgp::packet::SignatureVersion::V6;
    let mut hashed = Vec::new();
    for sp in &cfg.hashed_subpackets { sp.to_writer(&mut hashed).ok()?; }
    let mut h = Sha256::new();
    if let pgp::packet::SignatureVersionSpecific::V6 { salt } = &cfg.version_specific { h.update(salt); }
    h.update(data);
    let mut t = vec![if v6 { 6u8 } else { 4 }, u8::from(cfg.typ), u8::from(cfg.pub_alg), u8::from(cfg.hash_alg)];
    if v6 { t.extend((hashed.len() as u32).to_be_bytes()); } else { t.extend((hashed.len() as u16).to_be_bytes()); }
    t.extend(&hashed);
    let n = t.len() as u32;
    h.update(&t);
    h.update([if v6 { 6u8 } else { 4 }, 0xff]);
    h.update(n.to_be_bytes());
    let digest = h.finalize().to_vec();
    let sb = key.sign_raw(&digest)?;
    Signature::from_config(cfg.clone(), [digest[0], digest[1]], sb).ok()
}

impl Ctx {
    fn decrypt_case(&mut self, cname: &str, container: &[u8], esks: &[(&str, Vec<u8>, bool)], ring_keys: &[&SignedSecretKey], ring_pw: &[&Password], legacy: bool, gnupg: bool, expect_plain: Option<&[u8]>, cls: &str) {
        let mut msg = Vec::new();
        for (_, b, _) in esks { msg.extend_from_slice(b); }
        msg.extend_from_slice(container);
        let r = guarded(|| -> bool {
            let Ok(m) = Message::from_bytes(&msg[..]) else { return false; };
            let mut o = DecryptionOptions::new();
            if legacy { o = o.enable_legacy(); }
            if gnupg { o = o.enable_gnupg_aead(); }
            let empty = Password::empty();
            let ring = TheRing { secret_keys: ring_keys.to_vec(), key_passwords: vec![&empty], message_password: ring_pw.to_vec(), session_keys: vec![], decrypt_options: o };
            let Ok((mut dm, _)) = m.decrypt_the_ring(ring, false) else { return false; };
            let mut out = Vec::new();
            if dm.read_to_end(&mut out).is_err() {
                // compressed inside: try decompressing
                return false;
            }
            match expect_plain { Some(p) => out == p || { let mut o2 = Vec::new(); Message::from_bytes(&out[..]).ok().and_then(|m| m.decompress().ok()).map(|mut m| { let _ = m.read_to_end(&mut o2); o2 == p }).unwrap_or(false) }, None => true }
        });
        let spec = if esks.is_empty() { "_".to_string() } else { esks.iter().map(|(k, _, c)| format!("{k}:{}", *c as u8)).collect::<Vec<_>>().join(",") };
        let imp = match &r { Ok(b) => (*b as u8).to_string(), Err(p) => p.clone() };
        self.out.case("decrypt", &[cname.into(), (legacy as u8).to_string(), (gnupg as u8).to_string(), spec], &["decrypt".into(), hx(&msg[..msg.len().min(3000)]), cname.into()], &imp, Some(r.is_ok()), cls);
    }
}

fn main() {
    quiet_panics();
    let cli = cli();
    let mut cx = Ctx { out: Out::new(), rng: Rng::new(cli.seed) };
    if cli.mode == "replay" { cx.out.finish(); return; }
    let thorough = cli.tier == "thorough";
    let k4 = gen_key_with_subkey(KeyVersion::V4, 151);
    let k6 = gen_key_with_subkey(KeyVersion::V6, 152);
    let p4 = SignedPublicKey::from(k4.clone());
    let p6 = SignedPublicKey::from(k6.clone());
    let pw = Password::from("pw");
    let plain: Vec<u8> = b"the plaintext of C15".to_vec();

    // ---------------- (a) session-key packets x containers
    let s2k = || StringToKey::new_iterated(Rng::new(7), HashAlgorithm::Sha256, 96);
    // SEIPD v1 and v2 containers with known session keys
    let m1 = { let mut b = MessageBuilder::from_bytes("", plain.clone()).seipd_v1(Rng::new(1), SymmetricKeyAlgorithm::AES128); b.encrypt_with_password(s2k(), &pw).unwrap(); b.to_vec(Rng::new(2)).unwrap() };
    let m2 = { let mut b = MessageBuilder::from_bytes("", plain.clone()).seipd_v2(Rng::new(1), SymmetricKeyAlgorithm::AES256, AeadAlgorithm::Ocb, ChunkSize::C64B); b.encrypt_with_password(Rng::new(3), s2k(), &pw).unwrap(); b.to_vec(Rng::new(2)).unwrap() };
    for (cname, m, symc) in [("seipd1", &m1, SymmetricKeyAlgorithm::AES128), ("seipd2", &m2, SymmetricKeyAlgorithm::AES256)] {
        let ps = packets_of(m);
        let Some(Packet::SymKeyEncryptedSessionKey(sk)) = ps.first().cloned() else { continue; };
        let Ok(psk) = decrypt_session_key_with_password(&sk, &pw) else { continue; };
        let raw: Vec<u8> = match &psk { PlainSessionKey::V3_4 { key, .. } => key.as_ref().to_vec(), PlainSessionKey::V6 { key } => key.as_ref().to_vec(), PlainSessionKey::V5 { key } => key.as_ref().to_vec() };
        let container = ps.last().unwrap().to_bytes().unwrap();
        let rawk: pgp::composed::RawSessionKey = raw.clone().into();
        // good ESKs of every kind for this session key
        let mk = |kind: &str| -> Option<Vec<u8>> {
            match kind {
                "pk3" => PublicKeyEncryptedSessionKey::from_session_key_v3(Rng::new(11), &rawk, symc, &p4.public_subkeys[0].key).ok().and_then(|p| Packet::from(p).to_bytes().ok()),
                "pk6" => PublicKeyEncryptedSessionKey::from_session_key_v6(Rng::new(12), &rawk, &p6.public_subkeys[0].key).ok().and_then(|p| Packet::from(p).to_bytes().ok()),
                "sk4" => SymKeyEncryptedSessionKey::encrypt_v4(&pw, &rawk, s2k(), symc).ok().and_then(|p| Packet::from(p).to_bytes().ok()),
                "sk6" => SymKeyEncryptedSessionKey::encrypt_v6(Rng::new(13), &pw, &rawk, s2k(), symc, AeadAlgorithm::Ocb).ok().and_then(|p| Packet::from(p).to_bytes().ok()),
                _ => None,
            }
        };
        let kinds = ["pk3", "pk6", "sk4", "sk6"];
        let made: Vec<(&str, Vec<u8>)> = kinds.iter().filter_map(|k| mk(k).map(|b| (*k, b))).collect();
        // a GnuPG v5 SKESK (fixture, password "password") is never aligned with a SEIPD container
        {
            let skesk5 = unhx("c33d05070203089f0b7da3e5ea64779099e326e5400a90936cefb4e8eba08c6773716d1f2714540a38fcac529949dac529d3de31e15b4aeb729e330033dbed");
            let gpw = Password::from("password");
            for with in [vec![], vec!["sk4"], vec!["sk6"], vec!["pk3", "sk4"]] {
                let mut esks: Vec<(&str, Vec<u8>, bool)> = vec![("sk5", skesk5.clone(), true)];
                for w in &with { if let Some((k, b)) = made.iter().find(|(k, _)| k == w) { esks.push((*k, b.clone(), true)); } }
                for (l, g) in [(false, false), (false, true), (true, true)] {
                    cx.decrypt_case(cname, &container, &esks, &[&k4, &k6], &[&gpw, &pw], l, g, Some(&plain), &format!("esk-{cname}-with-skesk5"));
                    let mut rev = esks.clone(); rev.reverse();
                    cx.decrypt_case(cname, &container, &rev, &[&k4, &k6], &[&pw, &gpw], l, g, Some(&plain), &format!("esk-{cname}-with-skesk5"));
                }
            }
        }
        // every subset, two orders; three credential sets
        for mask in 0u32..(1 << made.len()) {
            for rev in [false, true] {
                let mut sel: Vec<&(&str, Vec<u8>)> = made.iter().enumerate().filter(|(i, _)| mask >> i & 1 == 1).map(|(_, x)| x).collect();
                if rev { if sel.len() < 2 { continue; } sel.reverse(); }
                for (credname, keys, pws) in [("all", vec![&k4, &k6], vec![&pw]), ("keys", vec![&k4, &k6], vec![]), ("password", vec![], vec![&pw])] {
                    let esks: Vec<(&str, Vec<u8>, bool)> = sel.iter().map(|(k, b)| (*k, b.clone(), if k.starts_with("pk") { !keys.is_empty() } else { !pws.is_empty() })).collect();
                    for (l, g) in [(false, false), (true, true)] {
                        if (l, g) == (true, true) && !(thorough || mask % 3 == 0) { continue; }
                        cx.decrypt_case(cname, &container, &esks, &keys, &pws, l, g, Some(&plain), &format!("esk-{cname}-{credname}"));
                    }
                }
            }
        }
        // a session key of the wrong kind handed over directly
        for (kn, key) in [("v3_4", PlainSessionKey::V3_4 { sym_alg: symc, key: rawk.clone() }), ("v6", PlainSessionKey::V6 { key: rawk.clone() }), ("v5", PlainSessionKey::V5 { key: rawk.clone() })] {
            let r = guarded(|| { let m = Message::from_bytes(&container[..]).ok()?; let mut d = m.decrypt_with_session_key(key.clone()).ok()?; let mut o = Vec::new(); d.read_to_end(&mut o).ok()?; Some(o == plain) }).ok().flatten().unwrap_or(false);
            let want = (cname == "seipd1" && kn == "v3_4") || (cname == "seipd2" && kn == "v6");
            cx.out.case("", &[], &["sessionkey-kind".into(), cname.into(), kn.into()], &format!("decrypts={}", r as u8), Some(r == want), &format!("sessionkey-kind-{cname}"));
        }
    }
    // GnuPG AEAD (fixtures): SKESK v5 + packet type 20, password "password"; and a message to bob (PKESK v3 + type 20)
    {
        let skesk5 = unhx("c33d05070203089f0b7da3e5ea64779099e326e5400a90936cefb4e8eba08c6773716d1f2714540a38fcac529949dac529d3de31e15b4aeb729e330033dbed");
        let ocb_hex = std::fs::read_to_string("/repo/tests/gnupg.rs").ok().and_then(|s| { let i = s.find("const OCB: &str = \"")?; let r = &s[i + 19..]; let j = r.find('"')?; Some(r[..j].split_whitespace().collect::<String>()) });
        if let Some(oh) = ocb_hex {
            let ocb = unhx(&oh);
            let gpw = Password::from("password");
            let junk6 = PublicKeyEncryptedSessionKey::from_session_key_v6(Rng::new(12), &vec![1u8; 16].into(), &p6.public_subkeys[0].key).ok().and_then(|p| Packet::from(p).to_bytes().ok());
            for (l, g) in [(false, false), (false, true), (true, false), (true, true)] {
                cx.decrypt_case("gaead", &ocb, &[("sk5", skesk5.clone(), true)], &[], &[&gpw], l, g, None, "esk-gaead-fixture");
                if let Some(j) = &junk6 { cx.decrypt_case("gaead", &ocb, &[("pk6", j.clone(), false), ("sk5", skesk5.clone(), true)], &[&k6], &[&gpw], l, g, None, "esk-gaead-fixture"); }
                cx.decrypt_case("gaead", &ocb, &[], &[], &[&gpw], l, g, None, "esk-gaead-fixture");
            }
        }
        if let (Ok((bob, _)), Ok(raw)) = (SignedSecretKey::from_armor_single(std::fs::File::open("/repo/tests/draft-bre-openpgp-samples-00/bob.sec.asc").unwrap()), std::fs::read("/repo/tests/gnupg/msg_to_bob.asc")) {
            let mut bin = Vec::new(); let _ = pgp::armor::Dearmor::new(&raw[..]).read_to_end(&mut bin);
            let ps = packets_of(&bin);
            // the message as a whole: PKESK v3 then packet 20
            if let Some(split) = ps.first().and_then(|p| p.to_bytes().ok()).map(|b| b.len()) {
                let (eskb, cont) = bin.split_at(split.min(bin.len()));
                for (l, g) in [(false, false), (false, true), (true, true)] {
                    cx.decrypt_case("gaead", cont, &[("pk3", eskb.to_vec(), true)], &[&bob], &[], l, g, None, "esk-gaead-bob");
                }
            }
        }
        // SED (fixture): PGP 6.5.8 message to a v3 RSA key
        if let (Ok((alice, _)), Ok(raw)) = (SignedSecretKey::from_armor_single(std::fs::File::open("/repo/tests/pgp6/alice.sec.asc").unwrap()), std::fs::read("/repo/tests/pgp6/hello.msg")) {
            let mut bin = Vec::new(); let _ = pgp::armor::Dearmor::new(&raw[..]).read_to_end(&mut bin);
            let ps = packets_of(&bin);
            if let Some(split) = ps.first().and_then(|p| p.to_bytes().ok()).map(|b| b.len()) {
                // the fixture uses old-format headers: find the boundary by re-serialising is not exact; search it
                let mut cut = None;
                for c in 1..bin.len() { if bin[c] & 0x80 != 0 && PacketParser::new(&bin[c..]).next().map(|r| matches!(r, Ok(Packet::SymEncryptedData(_)))).unwrap_or(false) && PacketParser::new(&bin[..c]).flatten().count() == 1 { cut = Some(c); break; } }
                let _ = split;
                if let Some(c) = cut {
                    let (eskb, cont) = bin.split_at(c);
                    for (l, g) in [(false, false), (true, false), (false, true), (true, true)] {
                        cx.decrypt_case("sed", cont, &[("pk3", eskb.to_vec(), true)], &[&alice], &[], l, g, None, "esk-sed-fixture");
                        cx.decrypt_case("sed", cont, &[], &[&alice], &[], l, g, None, "esk-sed-fixture");
                    }
                }
            }
        }
    }

    // ---------------- (b) (c) (d) signatures: key version, critical subpackets, issuer fingerprint version
    {
        let a4 = gen_key(KeyVersion::V4, KeyType::Ed25519, 161);
        let a6 = gen_key(KeyVersion::V6, KeyType::Ed25519, 162);
        let r4 = RecKey::new(a4.primary_key.public_key().clone());
        let r6 = RecKey::new(a6.primary_key.public_key().clone());
        let data = b"signed data";
        let base = |sv: u8, extra: Vec<Subpacket>| -> Option<SignatureConfig> {
            let mut c = if sv == 6 { SignatureConfig::v6(Rng::new(5), SignatureType::Binary, pgp::crypto::public_key::PublicKeyAlgorithm::Ed25519, HashAlgorithm::Sha256).ok()? } else { SignatureConfig::v4(SignatureType::Binary, pgp::crypto::public_key::PublicKeyAlgorithm::Ed25519, HashAlgorithm::Sha256) };
            c.hashed_subpackets = vec![Subpacket::regular(SubpacketData::SignatureCreationTime(Timestamp::from_secs(1_700_000_000))).ok()?];
            c.hashed_subpackets.extend(extra);
            Some(c)
        };
        // key version x signature version: verification and signing
        for (kv, key) in [(4u8, &r4), (6u8, &r6)] {
            for sv in [4u8, 6] {
                let Some(cfg) = base(sv, vec![]) else { continue; };
                // the signature is made valid for this very key's digest function
                let forged = forge(&cfg, key, data);
                let acc = forged.as_ref().map(|s| guarded(|| s.verify(key, &data[..]).is_ok()).unwrap_or(false)).unwrap_or(false);
                cx.out.case("sig", &[kv.to_string(), sv.to_string(), "2:0:-".into()], &["sig-version".into(), kv.to_string(), sv.to_string()], &(acc as u8).to_string(), None, "sig-key-version-verify");
                let signed = guarded(|| cfg.clone().sign(key, &Password::empty(), &data[..]).is_ok()).unwrap_or(false);
                cx.out.case("sig", &[kv.to_string(), sv.to_string(), "2:0:-".into()], &["sign-version".into(), kv.to_string(), sv.to_string()], &(signed as u8).to_string(), None, "sig-key-version-sign");
            }
        }
        // certificate-forming signatures where signer and signee are different keys of every version pair: the version rule
        // is about the key that ISSUED the signature (the model's sig_admissible gets the signer's version), whatever is certified
        {
            use pgp::types::Tag;
            let b4 = gen_key_with_subkey(KeyVersion::V4, 163);
            let b6 = gen_key_with_subkey(KeyVersion::V6, 164);
            let frame = |k: &pgp::packet::PublicKey| -> Vec<u8> { let b = k.to_bytes().unwrap_or_default(); let mut o = Vec::new(); if k.version() == KeyVersion::V6 { o.push(0x9b); o.extend((b.len() as u32).to_be_bytes()); } else { o.push(0x99); o.extend((b.len() as u16).to_be_bytes()); } o.extend(b); o };
            let frame_sub = |k: &pgp::packet::PublicSubkey| -> Vec<u8> { let b = k.to_bytes().unwrap_or_default(); let mut o = Vec::new(); if k.version() == KeyVersion::V6 { o.push(0x9b); o.extend((b.len() as u32).to_be_bytes()); } else { o.push(0x99); o.extend((b.len() as u16).to_be_bytes()); } o.extend(b); o };
            let uid = pgp::packet::UserId::from_str(Default::default(), "third <party@example.org>").unwrap();
            let uidb = b"third <party@example.org>".to_vec();
            for (ks, signer, signer_pub) in [(4u8, &r4, a4.primary_key.public_key().clone()), (6u8, &r6, a6.primary_key.public_key().clone())] {
                for (ke, signee) in [(4u8, &b4), (6u8, &b6)] {
                    let signee_pub = signee.primary_key.public_key().clone();
                    let signee_sub = signee.secret_subkeys[0].key.public_key().clone();
                    for sv in [4u8, 6] {
                        let mk = |typ: SignatureType| -> Option<SignatureConfig> { let mut c = base(sv, vec![])?; c.typ = typ; Some(c) };
                        // third-party certification and its revocation
                        for typ in [SignatureType::CertGeneric, SignatureType::CertPositive, SignatureType::CertRevocation] {
                            let Some(cfg) = mk(typ) else { continue; };
                            let mut subj = frame(&signee_pub); subj.push(0xb4); subj.extend((uidb.len() as u32).to_be_bytes()); subj.extend_from_slice(&uidb);
                            let acc = forge(&cfg, signer, &subj).map(|s| guarded(|| s.verify_third_party_certification(&signee_pub, signer, Tag::UserId, &uid).is_ok()).unwrap_or(false)).unwrap_or(false);
                            cx.out.case("sig", &[ks.to_string(), sv.to_string(), "2:0:-".into()], &["third-party-cert".into(), ks.to_string(), ke.to_string(), sv.to_string(), u8::from(typ).to_string()], &(acc as u8).to_string(), None, "sig-key-version-third-party-certification");
                        }
                        // third-party direct-key signature and key revocation
                        for typ in [SignatureType::Key, SignatureType::KeyRevocation] {
                            let Some(cfg) = mk(typ) else { continue; };
                            let acc = forge(&cfg, signer, &frame(&signee_pub)).map(|s| guarded(|| s.verify_key_third_party(&signee_pub, signer).is_ok()).unwrap_or(false)).unwrap_or(false);
                            cx.out.case("sig", &[ks.to_string(), sv.to_string(), "2:0:-".into()], &["third-party-key".into(), ks.to_string(), ke.to_string(), sv.to_string(), u8::from(typ).to_string()], &(acc as u8).to_string(), None, "sig-key-version-third-party-key");
                        }
                        // a binding of the signee's subkey issued by the signer key (signature level only: which subkeys a
                        // certificate may carry is judged under "subkey" below)
                        for typ in [SignatureType::SubkeyBinding, SignatureType::SubkeyRevocation] {
                            let Some(cfg) = mk(typ) else { continue; };
                            let mut subj = frame(&signer_pub); subj.extend(frame_sub(&signee_sub));
                            let acc = forge(&cfg, signer, &subj).map(|s| guarded(|| s.verify_subkey_binding(signer, &signee_sub).is_ok()).unwrap_or(false)).unwrap_or(false);
                            cx.out.case("sig", &[ks.to_string(), sv.to_string(), "2:0:-".into()], &["subkey-binding-sig".into(), ks.to_string(), ke.to_string(), sv.to_string(), u8::from(typ).to_string()], &(acc as u8).to_string(), None, "sig-key-version-subkey-binding");
                        }
                    }
                }
            }
        }
        // every subpacket id x critical bit in the hashed area of a v4 and a v6 signature
        for (sv, key) in [(4u8, &r4), (6u8, &r6)] {
            for id in 0u8..128 {
                for crit in [false, true] {
                    let data_sp = match id {
                        2 => continue,
                        3 => SubpacketData::SignatureExpirationTime(pgp::types::Duration::from_secs(1000)),
                        4 => SubpacketData::ExportableCertification(true),
                        7 => SubpacketData::Revocable(true),
                        9 => SubpacketData::KeyExpirationTime(pgp::types::Duration::from_secs(1000)),
                        25 => SubpacketData::IsPrimary(true),
                        26 => SubpacketData::PolicyURI("https://example.org".into()),
                        27 => SubpacketData::KeyFlags(Default::default()),
                        28 => SubpacketData::SignersUserID(b"x"[..].into()),
                        20 => SubpacketData::Notation(pgp::packet::Notation { readable: true, name: "a@b".into(), value: b"v"[..].into() }),
                        100..=110 => SubpacketData::Experimental(id, b"exp"[..].into()),
                        0 | 1 | 8 | 10 | 13 | 14 | 15 | 17 | 18 | 19 | 36 | 37 | 38 | 40..=99 | 111..=127 => SubpacketData::Other(id, b"oth"[..].into()),
                        _ => continue,   // known kinds with structured bodies are covered by the ids above
                    };
                    let sp = if crit { Subpacket::critical(data_sp) } else { Subpacket::regular(data_sp) };
                    let Ok(sp) = sp else { continue; };
                    let Some(cfg) = base(sv, vec![sp]) else { continue; };
                    let forged = forge(&cfg, key, data);
                    let acc = forged.as_ref().map(|s| {
                        // through the wire as well
                        let viaw = Packet::from(s.clone()).to_bytes().ok().and_then(|b| match PacketParser::new(&b[..]).next() { Some(Ok(Packet::Signature(s2))) => Some(s2), _ => None });
                        let direct = guarded(|| s.verify(key, &data[..]).is_ok()).unwrap_or(false);
                        let wire = viaw.map(|s2| guarded(|| s2.verify(key, &data[..]).is_ok()).unwrap_or(false));
                        (direct, wire)
                    });
                    let (d, w) = acc.unwrap_or((false, Some(false)));
                    let same = w.map(|w| w == d).unwrap_or(true);
                    cx.out.case("sig", &[if sv == 6 { "6" } else { "4" }.into(), sv.to_string(), format!("2:0:-,{id}:{}:-", crit as u8)], &["critical".into(), sv.to_string(), id.to_string(), (crit as u8).to_string()], &(d as u8).to_string(), Some(same), &format!("critical-v{sv}-{}", if crit { "critical" } else { "regular" }));
                }
            }
            // issuer fingerprint version octet
            for (fv, fp) in [(4u8, a4.fingerprint()), (6u8, a6.fingerprint())] {
                let Ok(sp) = Subpacket::regular(SubpacketData::IssuerFingerprint(fp)) else { continue; };
                let Some(cfg) = base(sv, vec![sp]) else { continue; };
                let forged = forge(&cfg, key, data);
                let acc = forged.as_ref().map(|s| guarded(|| s.verify(key, &data[..]).is_ok()).unwrap_or(false)).unwrap_or(false);
                // the fingerprint must also be this key's for the signature to be attributed to it: only judge the version rule when it is
                let own = (sv == 4 && fv == 4) || (sv == 6 && fv == 6);
                cx.out.case("sig", &[sv.to_string(), sv.to_string(), format!("2:0:-,33:0:{fv}")], &["issuer-fp-version".into(), sv.to_string(), fv.to_string()], &(acc as u8).to_string(), Some(own || !acc), "issuer-fingerprint-version");
            }
            // ... a second issuer fingerprint of another version beside the signer's own (version 5 has the length of version 6)
            {
                use pgp::types::KeyDetails;
                let own_fp = key.fingerprint();
                let v5 = pgp::types::Fingerprint::new(KeyVersion::V5, &[0x55u8; 32]);
                for (fv, extra) in [(4u8, Some(a4.fingerprint())), (6u8, Some(a6.fingerprint())), (5u8, v5.ok())] {
                    let Some(extra) = extra else { continue; };
                    let (Ok(sp1), Ok(sp2)) = (Subpacket::regular(SubpacketData::IssuerFingerprint(own_fp.clone())), Subpacket::regular(SubpacketData::IssuerFingerprint(extra))) else { continue; };
                    for order in [false, true] {
                        let sps = if order { vec![sp2.clone(), sp1.clone()] } else { vec![sp1.clone(), sp2.clone()] };
                        let Some(cfg) = base(sv, sps) else { continue; };
                        let forged = forge(&cfg, key, data);
                        let acc = forged.as_ref().map(|s| guarded(|| s.verify(key, &data[..]).is_ok()).unwrap_or(false)).unwrap_or(false);
                        let spec = if order { format!("2:0:-,33:0:{fv},33:0:{sv}") } else { format!("2:0:-,33:0:{sv},33:0:{fv}") };
                        cx.out.case("sig", &[sv.to_string(), sv.to_string(), spec], &["issuer-fp-version-second".into(), sv.to_string(), fv.to_string(), (order as u8).to_string()], &(acc as u8).to_string(), Some(fv == sv || !acc), "issuer-fingerprint-version-second");
                    }
                }
            }
        }
    }

    // ---------------- (e) one-pass header vs. signature
    for (kn, key) in [("v4", &k4), ("v6", &k6)] {
        let pk = SignedPublicKey::from(key.clone());
        use pgp::types::SigningKey;
        let bytes = { let mut b = MessageBuilder::from_bytes("", plain.clone()); b.sign(&key.primary_key, Password::empty(), key.primary_key.hash_alg()); b.to_vec(Rng::new(4)).unwrap() };
        let check = |m: &[u8]| -> bool { guarded(|| { let mut m = Message::from_bytes(m).ok()?; let mut o = Vec::new(); m.read_to_end(&mut o).ok()?; Some(m.verify(&pk).is_ok()) }).ok().flatten().unwrap_or(false) };
        // OPS is the first packet: c4 len ver type hash alg ...
        let ops_len = bytes[1] as usize;
        let v6 = bytes[2] == 6;
        let field = |off: usize| -> &'static str {
            match off { 0 => "version", 1 => "type", 2 => "hash", 3 => "alg", _ => if v6 { let sl = bytes[2 + 4] as usize; if off == 4 { "saltlen" } else if off < 5 + sl { "salt" } else if off < 5 + sl + 32 { "issuer" } else { "nested" } } else if off < 12 { "issuer" } else { "nested" } }
        };
        let base_ok = check(&bytes);
        cx.out.case("ops", &["0", "8", "27", "aa", "bb", "0", "8", "27", "aa", "bb"].map(String::from), &["ops".into(), kn.into(), "none".into()], &(base_ok as u8).to_string(), None, "ops-baseline");
        for off in 1..ops_len {
            let f = field(off);
            if f == "nested" || f == "version" || f == "saltlen" { continue; }
            for bit in [0u8, 3, 7] {
                let mut v = bytes.clone(); v[2 + off] ^= 1 << bit;
                let acc = check(&v);
                // model: the header differs from the signature in exactly this field
                let args: Vec<String> = match f {
                    "type" => ["0", "8", "27", "aa", "bb", "1", "8", "27", "aa", "bb"].map(String::from).to_vec(),
                    "hash" => ["0", "8", "27", "aa", "bb", "0", "9", "27", "aa", "bb"].map(String::from).to_vec(),
                    "alg" => ["0", "8", "27", "aa", "bb", "0", "8", "1", "aa", "bb"].map(String::from).to_vec(),
                    "issuer" => ["0", "8", "27", "aa", "bb", "0", "8", "27", "ab", "bb"].map(String::from).to_vec(),
                    _ => ["0", "8", "27", "aa", "bb", "0", "8", "27", "aa", "bc"].map(String::from).to_vec(),
                };
                cx.out.case("ops", &args, &["ops".into(), kn.into(), f.into(), off.to_string(), bit.to_string(), hx(&v)], &(acc as u8).to_string(), None, &format!("ops-{kn}-{f}"));
            }
        }
    }

    // ---------------- (e') one-pass header of one version in front of a signature of the other: never accepted.  The attack
    //                  this rule closes: a v4 signature over S || M verifies as a signature over M behind a v6 one-pass
    //                  header whose salt is S (the salt is hashed before the body); and a v6 signature over M with salt S
    //                  as a signature over S || M behind a v3 header
    {
        use pgp::packet::{LiteralData, Packet, SignatureConfig, SignatureType, Subpacket, SubpacketData};
        use pgp::types::{KeyDetails, SigningKey, Timestamp};
        let frame = |tag: u8, body: &[u8]| -> Vec<u8> { let mut v = vec![0xC0 | tag]; assert!(body.len() < 192); v.push(body.len() as u8); v.extend_from_slice(body); v };
        let lit = |m: &[u8]| -> Vec<u8> { let mut b = vec![b'b', 0, 0, 0, 0, 0]; b.extend_from_slice(m); frame(11, &b) };
        let m: Vec<u8> = b" pay 100 EUR to Mallory.".to_vec();
        // (1) OPS v6 (salt S) | Literal(M) | Sig v4 over S || M, by the v4 key
        {
            let pk = SignedPublicKey::from(k4.clone());
            let hash = k4.primary_key.hash_alg();
            let salt: Vec<u8> = (0..hash.salt_len().unwrap_or(16) as u8).map(|i| b"Dear Bob, do NOT pay this or anything else"[i as usize % 40]).collect();
            let r = guarded(|| -> Option<(bool, bool)> {
                let mut c = SignatureConfig::v4(SignatureType::Binary, k4.primary_key.algorithm(), hash);
                c.hashed_subpackets = vec![Subpacket::regular(SubpacketData::SignatureCreationTime(Timestamp::from_secs(1_700_000_000))).ok()?, Subpacket::regular(SubpacketData::IssuerFingerprint(k4.primary_key.fingerprint())).ok()?];
                let signed: Vec<u8> = [&salt[..], &m[..]].concat();
                let sig = c.sign(&k4.primary_key, &Password::empty(), &signed[..]).ok()?;
                let sigp = Packet::from(sig).to_bytes().ok()?;
                let mut fp32 = k4.primary_key.fingerprint().as_bytes().to_vec(); fp32.resize(32, 0);
                let mut ops = vec![6u8, 0, u8::from(hash), u8::from(k4.primary_key.algorithm()), salt.len() as u8]; ops.extend(&salt); ops.extend(&fp32); ops.push(1);
                let msg = [frame(4, &ops), lit(&m), sigp.clone()].concat();
                let verifies = |bytes: &[u8]| -> bool { (|| { let mut mm = Message::from_bytes(bytes).ok()?; let mut o = Vec::new(); mm.read_to_end(&mut o).ok()?; Some(mm.verify(&pk).is_ok()) })().unwrap_or(false) };
                // control: the honest shape OPS v3 | Literal(S || M) | Sig v4 verifies
                let mut ops3 = vec![3u8, 0, u8::from(hash), u8::from(k4.primary_key.algorithm())]; ops3.extend(k4.primary_key.legacy_key_id().as_ref()); ops3.push(1);
                let honest = [frame(4, &ops3), lit(&signed), sigp].concat();
                Some((verifies(&msg), verifies(&honest)))
            });
            let (imp, pred) = match r.clone() { Ok(Some((crossed, honest))) => (format!("crossed-verifies={crossed} honest-verifies={honest}"), !crossed && honest), Ok(None) => ("not constructible".into(), false), Err(p) => (p, false) };
            cx.out.case("", &[], &["ops-version-crossed".into(), "ops6-sig4".into()], &imp, Some(pred), "ops-version-crossed-ops6-sig4");
            if let Ok(Some((crossed, honest))) = r { for (ov, sv, acc) in [(6, 4, crossed), (3, 4, honest)] { cx.out.case("opspair", &[ov.to_string(), sv.to_string()], &["ops-version-crossed".into(), "ops6-sig4".into()], &(acc as u8).to_string(), None, "ops-version-pairing"); } }
        }
        // (2) OPS v3 | Literal(S || M) | Sig v6 over M with salt S, by the v6 key
        {
            let pk = SignedPublicKey::from(k6.clone());
            let hash = k6.primary_key.hash_alg();
            let r = guarded(|| -> Option<(bool, bool)> {
                let mut c = SignatureConfig::v6(Rng::new(77), SignatureType::Binary, k6.primary_key.algorithm(), hash).ok()?;
                c.hashed_subpackets = vec![Subpacket::regular(SubpacketData::SignatureCreationTime(Timestamp::from_secs(1_700_000_000))).ok()?, Subpacket::regular(SubpacketData::IssuerFingerprint(k6.primary_key.fingerprint())).ok()?];
                let salt: Vec<u8> = match &c.version_specific { pgp::packet::SignatureVersionSpecific::V6 { salt } => salt.clone(), _ => return None };
                let sig = c.sign(&k6.primary_key, &Password::empty(), &m[..]).ok()?;
                let sigp = Packet::from(sig).to_bytes().ok()?;
                let mut ops3 = vec![3u8, 0, u8::from(hash), u8::from(k6.primary_key.algorithm())]; ops3.extend(k6.primary_key.legacy_key_id().as_ref()); ops3.push(1);
                let crossed = [frame(4, &ops3), lit(&[&salt[..], &m[..]].concat()), sigp.clone()].concat();
                let mut ops6 = vec![6u8, 0, u8::from(hash), u8::from(k6.primary_key.algorithm()), salt.len() as u8]; ops6.extend(&salt); ops6.extend(k6.primary_key.fingerprint().as_bytes()); ops6.push(1);
                let honest = [frame(4, &ops6), lit(&m), sigp].concat();
                let verifies = |bytes: &[u8]| -> bool { (|| { let mut mm = Message::from_bytes(bytes).ok()?; let mut o = Vec::new(); mm.read_to_end(&mut o).ok()?; Some(mm.verify(&pk).is_ok()) })().unwrap_or(false) };
                Some((verifies(&crossed), verifies(&honest)))
            });
            let (imp, pred) = match r.clone() { Ok(Some((crossed, honest))) => (format!("crossed-verifies={crossed} honest-verifies={honest}"), !crossed && honest), Ok(None) => ("not constructible".into(), false), Err(p) => (p, false) };
            cx.out.case("", &[], &["ops-version-crossed".into(), "ops3-sig6".into()], &imp, Some(pred), "ops-version-crossed-ops3-sig6");
            if let Ok(Some((crossed, honest))) = r { for (ov, sv, acc) in [(3, 6, crossed), (6, 6, honest)] { cx.out.case("opspair", &[ov.to_string(), sv.to_string()], &["ops-version-crossed".into(), "ops3-sig6".into()], &(acc as u8).to_string(), None, "ops-version-pairing"); } }
        }
    }

    // ---------------- (e'') v6 signatures name a hash with a defined salt size and carry a salt of exactly that size: on every
    //                   path, also the ones that verify key material (certifications, bindings).  A v6 RSA key can sign a short digest
    {
        use pgp::packet::{Packet, PacketParser, SignatureConfig, SignatureType, Subpacket, SubpacketData, UserId};
        use pgp::types::{KeyDetails, Tag, Timestamp};
        if let Ok(k) = guarded(|| vh::keys::gen_key(KeyVersion::V6, KeyType::Rsa(2048), 157)) {
            let ppub = k.primary_key.public_key();
            let uid = UserId::from_str(Default::default(), "c15 <c15@example.org>").unwrap();
            for (hname, hash, saltlen) in [("sha1", HashAlgorithm::Sha1, 16usize), ("md5", HashAlgorithm::Md5, 16), ("ripemd160", HashAlgorithm::Ripemd160, 16), ("sha256-short-salt", HashAlgorithm::Sha256, 8), ("sha256-long-salt", HashAlgorithm::Sha256, 32), ("sha512-16", HashAlgorithm::Sha512, 16), ("sha256", HashAlgorithm::Sha256, 16)] {
                let legal = hname == "sha256";
                let r = guarded(|| -> Option<(bool, bool, bool)> {
                    let mut c = SignatureConfig::v6_with_salt(SignatureType::CertPositive, ppub.algorithm(), hash, vec![0x42; saltlen]);
                    c.hashed_subpackets = vec![Subpacket::regular(SubpacketData::SignatureCreationTime(Timestamp::from_secs(1_700_000_000))).ok()?, Subpacket::regular(SubpacketData::IssuerFingerprint(ppub.fingerprint())).ok()?];
                    let sig = match c.sign_certification(&k.primary_key, &ppub, &Password::empty(), Tag::UserId, &uid) { Ok(s) => s, Err(_) => return Some((false, false, false)) };
                    let w = Packet::from(sig.clone()).to_bytes().ok()?;
                    // the packet as a verifier receives it
                    let through_wire = match PacketParser::new(&w[..]).next() { Some(Ok(Packet::Signature(s))) => s.verify_certification(&ppub, Tag::UserId, &uid).is_ok(), _ => false };
                    // inside a certificate
                    let mut cert = SignedPublicKey::from(k.clone());
                    cert.details.users = vec![pgp::types::SignedUser::new(uid.clone(), vec![sig.clone()])];
                    let in_cert = cert.to_bytes().ok().and_then(|b| SignedPublicKey::from_bytes(&b[..]).ok()).map(|c2| c2.details.users.iter().any(|u| !u.signatures.is_empty()) && c2.verify_bindings().is_ok()).unwrap_or(false);
                    // the object as built, never serialised
                    let in_memory = sig.verify_certification(&ppub, Tag::UserId, &uid).is_ok();
                    Some((through_wire, in_cert, in_memory))
                });
                let (imp, pred) = match r { Ok(Some((a, b, c))) => (format!("accepted through-wire={} in-certificate={} in-memory={}", a as u8, b as u8, c as u8), if legal { a && b && c } else { !a && !b }), Ok(None) => ("not constructible".into(), false), Err(p) => (p, false) };
                cx.out.case("", &[], &["v6-hash-salt-rule".into(), hname.into()], &imp, Some(pred), &format!("v6-hash-salt-rule-{}", if legal { "legal" } else { "illegal" }));
            }
        }
    }

    // ---------------- (g) certificates: subkey versions; signing subkeys on the public and the secret path
    {
        // v6 primary with a v4 subkey and the reverse: splice the subkey packets of one certificate behind the other
        let b4 = k4.to_bytes().unwrap(); let b6 = k6.to_bytes().unwrap();
        let split = |b: &[u8]| -> Vec<Vec<u8>> { let mut v = Vec::new(); let mut d = b; while d.len() >= 2 { let l = match d[1] { x @ 0..=191 => 2 + x as usize, x @ 192..=223 => 3 + ((x as usize - 192) << 8) + d[2] as usize + 192, _ => 6 + u32::from_be_bytes([d[2], d[3], d[4], d[5]]) as usize }; if l > d.len() { break; } v.push(d[..l].to_vec()); d = &d[l..]; } v };
        let (s4, s6) = (split(&b4), split(&b6));
        let sub_of = |v: &Vec<Vec<u8>>| -> Vec<u8> { let i = v.iter().position(|p| p[0] & 0x3f == 7).unwrap_or(v.len()); v[i..].concat() };
        let head_of = |v: &Vec<Vec<u8>>| -> Vec<u8> { let i = v.iter().position(|p| p[0] & 0x3f == 7).unwrap_or(v.len()); v[..i].concat() };
        for (pv, sv, bytes) in [(6u8, 4u8, [head_of(&s6), sub_of(&s4)].concat()), (4, 6, [head_of(&s4), sub_of(&s6)].concat()), (4, 4, b4.clone()), (6, 6, b6.clone())] {
            // secret path and public path: does a subkey survive parsing?
            let sec = guarded(|| SignedSecretKey::from_bytes(&bytes[..]).map(|k| !k.secret_subkeys.is_empty()).unwrap_or(false)).unwrap_or(false);
            let pubbytes = guarded(|| SignedSecretKey::from_bytes(&bytes[..]).ok().map(|k| SignedPublicKey::from(k).to_bytes().unwrap_or_default())).ok().flatten();
            cx.out.case("subkey", &[pv.to_string(), sv.to_string()], &["subkey-version".into(), "secret".into(), hx(&bytes)], &(sec as u8).to_string(), None, "subkey-version-secret-path");
            // the public path: convert each secret packet into its public counterpart by hand is what from() does; use the library's own public export of the pure certificates and splice again
            let pb4 = p4.to_bytes().unwrap(); let pb6 = p6.to_bytes().unwrap();
            let (q4, q6) = (split(&pb4), split(&pb6));
            let psub = |v: &Vec<Vec<u8>>| -> Vec<u8> { let i = v.iter().position(|p| p[0] & 0x3f == 14).unwrap_or(v.len()); v[i..].concat() };
            let phead = |v: &Vec<Vec<u8>>| -> Vec<u8> { let i = v.iter().position(|p| p[0] & 0x3f == 14).unwrap_or(v.len()); v[..i].concat() };
            let pbytes = match (pv, sv) { (6, 4) => [phead(&q6), psub(&q4)].concat(), (4, 6) => [phead(&q4), psub(&q6)].concat(), (4, 4) => pb4.clone(), _ => pb6.clone() };
            let pubr = guarded(|| SignedPublicKey::from_bytes(&pbytes[..]).map(|k| !k.public_subkeys.is_empty()).unwrap_or(false)).unwrap_or(false);
            cx.out.case("subkey", &[pv.to_string(), sv.to_string()], &["subkey-version".into(), "public".into(), hx(&pbytes)], &(pubr as u8).to_string(), None, "subkey-version-public-path");
            let _ = pubbytes;
            // a transferable secret key may also carry public subkey packets: the same rule
            let mixed = match (pv, sv) { (6, 4) => [head_of(&s6), psub(&q4)].concat(), (4, 6) => [head_of(&s4), psub(&q6)].concat(), (4, 4) => [head_of(&s4), psub(&q4)].concat(), _ => [head_of(&s6), psub(&q6)].concat() };
            let mixr = guarded(|| SignedSecretKey::from_bytes(&mixed[..]).map(|k| !k.public_subkeys.is_empty() || !k.secret_subkeys.is_empty()).unwrap_or(false)).unwrap_or(false);
            cx.out.case("subkey", &[pv.to_string(), sv.to_string()], &["subkey-version".into(), "secret-with-public-subkey".into(), hx(&mixed)], &(mixr as u8).to_string(), None, "subkey-version-mixed-path");
            let many = guarded(|| { let mut any = false; for k in pgp::composed::PublicOrSecret::from_bytes_many(&mixed[..]).ok()?.flatten() { any |= match k { pgp::composed::PublicOrSecret::Secret(k) => !k.public_subkeys.is_empty() || !k.secret_subkeys.is_empty(), pgp::composed::PublicOrSecret::Public(k) => !k.public_subkeys.is_empty() }; } Some(any) }).ok().flatten().unwrap_or(false);
            cx.out.case("subkey", &[pv.to_string(), sv.to_string()], &["subkey-version".into(), "public-or-secret".into(), hx(&mixed)], &(many as u8).to_string(), None, "subkey-version-mixed-path");
        }
        // signing-capable subkey: binding with a valid back-signature, without one, with one made by another key
        use pgp::composed::SubkeyParamsBuilder;
        use pgp::composed::SecretKeyParamsBuilder;
        for (vname, ver, pkt, skt) in [("v4", KeyVersion::V4, KeyType::Ed25519Legacy, KeyType::Ed25519Legacy), ("v6", KeyVersion::V6, KeyType::Ed25519, KeyType::Ed25519)] {
            let mut sub = SubkeyParamsBuilder::default();
            sub.version(ver).key_type(skt.clone()).can_sign(true);
            let mut p = SecretKeyParamsBuilder::default();
            p.version(ver).key_type(pkt.clone()).can_certify(true).can_sign(true).primary_user_id("c15 <c15@example.org>".into()).subkeys(vec![sub.build().unwrap()]);
            let Ok(key) = p.build().unwrap().generate(Rng::new(170)) else { continue; };
            let other = gen_key(ver, pkt.clone(), 171);
            for variant in ["valid-backsig", "no-backsig", "foreign-backsig"] {
                let mut k = key.clone();
                let subk = k.secret_subkeys[0].key.clone();
                let mut kf = pgp::packet::KeyFlags::default(); kf.set_sign(true);
                let emb = match variant {
                    "valid-backsig" => subk.sign_primary_key_binding(Rng::new(1), &k.primary_key.public_key(), &Password::empty()).ok(),
                    "foreign-backsig" => other.primary_key.sign_primary_key_binding_like(&k),
                    _ => None,
                };
                if variant != "no-backsig" && emb.is_none() { continue; }
                let Ok(sig) = subk.sign(Rng::new(2), &k.primary_key, &k.primary_key.public_key(), &Password::empty(), kf, emb) else { continue; };
                k.secret_subkeys[0].signatures = vec![sig];
                let sec = guarded(|| k.verify_bindings().is_ok()).unwrap_or(false);
                let pubk = SignedPublicKey::from(k.clone());
                let pubr = guarded(|| pubk.verify_bindings().is_ok()).unwrap_or(false);
                // through the wire as well
                let secw = guarded(|| SignedSecretKey::from_bytes(&k.to_bytes().unwrap()[..]).map(|x| x.verify_bindings().is_ok()).unwrap_or(false)).unwrap_or(false);
                let pubw = guarded(|| SignedPublicKey::from_bytes(&pubk.to_bytes().unwrap()[..]).map(|x| x.verify_bindings().is_ok()).unwrap_or(false)).unwrap_or(false);
                let bs = variant == "valid-backsig";
                for (path, r) in [("secret", sec), ("public", pubr), ("secret-wire", secw), ("public-wire", pubw)] {
                    cx.out.case("binding", &["1".into(), "1".into(), (bs as u8).to_string()], &["backsig".into(), vname.into(), variant.into(), path.into()], &(r as u8).to_string(), None, &format!("backsig-{variant}-{path}"));
                }
            }
        }
    }
    let _ = Tag::Signature;
    cx.out.finish();
}

trait ForeignBacksig { fn sign_primary_key_binding_like(&self, target: &SignedSecretKey) -> Option<Signature>; }
impl ForeignBacksig for pgp::packet::SecretKey {
    /// a primary-key-binding signature made by the wrong key (this one) over (target primary, target subkey)
    fn sign_primary_key_binding_like(&self, target: &SignedSecretKey) -> Option<Signature> {
        use pgp::types::SigningKey;
        let sub = target.secret_subkeys.first()?;
        let mut cfg = if self.version() == KeyVersion::V6 { SignatureConfig::v6(Rng::new(9), SignatureType::KeyBinding, self.algorithm(), self.hash_alg()).ok()? } else { SignatureConfig::v4(SignatureType::KeyBinding, self.algorithm(), self.hash_alg()) };
        cfg.hashed_subpackets = vec![Subpacket::regular(SubpacketData::SignatureCreationTime(Timestamp::now())).ok()?, Subpacket::regular(SubpacketData::IssuerFingerprint(self.fingerprint())).ok()?];
        cfg.sign_primary_key_binding(self, &self.public_key(), &Password::empty(), &target.primary_key.public_key()).ok()
    }
}
