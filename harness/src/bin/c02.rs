//! C02: signature soundness -- only the signed content under the signer's key verifies.
use std::io::Read;

use pgp::composed::{Deserializable, DetachedSignature, KeyType, Message, MessageBuilder, SignedPublicKey, SignedSecretKey};
use pgp::crypto::ecc_curve::ECCCurve;
use pgp::crypto::hash::HashAlgorithm;
use pgp::ser::Serialize;
use pgp::types::{KeyDetails, KeyVersion, Password, SigningKey};
use vh::keys::{gen_key, gen_key_with_subkey};
use vh::*;

struct Ctx { out: Out, rng: Rng }

/// layout of a serialised signature packet (as the library writes it): byte ranges by field
struct Layout { hdr: usize, hashed: (usize, usize), unhashed: (usize, usize), prefix: usize, value: usize, v: u8 }

fn layout(p: &[u8]) -> Option<Layout> {
    if p.len() < 8 || p[0] & 0xC0 != 0xC0 { return None; }
    let hdr = match p[1] { 0..=191 => 2, 192..=223 => 3, 255 => 6, _ => return None };
    let b = &p[hdr..];
    let v = b[0];
    let (lw, _) = match v { 4 => (2usize, ()), 6 => (4usize, ()), _ => return None };
    let rd = |o: usize| -> usize { if lw == 2 { u16::from_be_bytes([b[o], b[o + 1]]) as usize } else { u32::from_be_bytes([b[o], b[o + 1], b[o + 2], b[o + 3]]) as usize } };
    let hl = rd(4);
    let hs = 4 + lw;
    let us_len_at = hs + hl;
    let ul = rd(us_len_at);
    let us = us_len_at + lw;
    let prefix = us + ul;
    let mut value = prefix + 2;
    if v == 6 { value += 1 + b[value] as usize; }
    Some(Layout { hdr, hashed: (hdr + hs, hdr + hs + hl), unhashed: (hdr + us, hdr + us + ul), prefix: hdr + prefix, value: hdr + value, v })
}

fn field_of(l: &Layout, off: usize, mpi_alg: bool, p: &[u8]) -> (&'static str, bool) {
    // (field name, must the perturbed signature be rejected?)
    if off < l.hdr { return ("header", true); }
    if off < l.hdr + 4 { return (["version", "type", "pkalg", "hashalg"][off - l.hdr], true); }
    if off < l.hashed.0 { return ("hashed-len", true); }
    if off < l.hashed.1 { return ("hashed", true); }
    if off < l.unhashed.0 { return ("unhashed-len", false); }   // may re-frame the unhashed area; not part of the signed data
    if off < l.unhashed.1 { return ("unhashed", false); }
    if off < l.prefix + 2 { return ("prefix", true); }
    if off < l.value { return ("salt", true); }
    if mpi_alg {
        // the two-octet bit counts in front of each MPI are an encoding detail
        let mut o = l.value;
        while o + 2 <= p.len() {
            if off == o || off == o + 1 { return ("mpi-bitcount", false); }
            let bits = u16::from_be_bytes([p[o], p[o + 1]]) as usize;
            o += 2 + bits.div_ceil(8);
        }
    }
    let _ = l.v;
    ("value", true)
}

impl Ctx {
    fn report(&mut self, what: &str, field: &str, must_reject: bool, accepted: bool, bound_ok: bool, rp: Vec<String>, cls: &str) {
        // soundness: a must-reject change is never accepted; an accepted change never alters a signed component
        let pred = (!must_reject || !accepted) && (!accepted || bound_ok);
        self.out.case("", &[], &rp, &format!("{what} field={field} accepted={} bound={}", accepted as u8, bound_ok as u8), Some(pred), cls);
    }

    /// detached signature: every bit of the signature packet, every bit of the content, other keys
    fn detached(&mut self, key: &SignedSecretKey, others: &[SignedPublicKey], text: bool, hash: HashAlgorithm, data: &[u8], exhaustive: bool, cls: &str) {
        let pk = SignedPublicKey::from(key.clone());
        // "-rich" classes: a hashed area with subpackets of kinds the library does not know (not critical), a notation and a
        // policy URI beside the usual ones -- every octet of the hashed area is signed, whatever the library makes of it
        let sig = if cls.contains("-rich") {
            (|| -> pgp::errors::Result<DetachedSignature> {
                use pgp::packet::{Notation, SignatureConfig, SignatureType, Subpacket, SubpacketData};
                use pgp::types::{KeyDetails, Timestamp};
                let mut c = SignatureConfig::from_key(Rng::new(9), &key.primary_key, if text { SignatureType::Text } else { SignatureType::Binary })?;
                c.hash_alg = hash;
                c.hashed_subpackets = vec![
                    Subpacket::regular(SubpacketData::SignatureCreationTime(Timestamp::from_secs(1_700_000_000)))?,
                    Subpacket::regular(SubpacketData::Other(61, vec![1u8, 2, 3, 4, 5].into()))?,
                    Subpacket::regular(SubpacketData::IssuerFingerprint(key.primary_key.fingerprint()))?,
                    Subpacket::regular(SubpacketData::Experimental(105, vec![9u8, 8, 7].into()))?,
                    Subpacket::regular(SubpacketData::Notation(Notation { readable: true, name: "n@example.org".into(), value: b"v"[..].into() }))?,
                    Subpacket::regular(SubpacketData::PolicyURI("https://example.org/p".into()))?,
                ];
                Ok(DetachedSignature::new(c.sign(&key.primary_key, &Password::empty(), data)?))
            })()
        } else if text { DetachedSignature::sign_text_data(Rng::new(9), &key.primary_key, &Password::empty(), hash, data) }
                  else { DetachedSignature::sign_binary_data(Rng::new(9), &key.primary_key, &Password::empty(), hash, data) };
        let Ok(sig) = sig else { self.out.case("", &[], &["sign".into()], "ERR sign", Some(false), cls); return; };
        let ok0 = sig.verify(&pk, data).is_ok();
        self.out.case("", &[], &["baseline".into()], &format!("verify={}", ok0 as u8), Some(ok0), &format!("{cls}-baseline"));
        let bytes = sig.to_bytes().unwrap();
        let Some(l) = layout(&bytes) else { return; };
        let mpi_alg = !matches!(key.algorithm(), pgp::crypto::public_key::PublicKeyAlgorithm::Ed25519 | pgp::crypto::public_key::PublicKeyAlgorithm::Ed448);
        let cfg0 = sig.signature.config().cloned();
        // (a) the signature packet
        let nbits = bytes.len() * 8;
        let bits: Vec<usize> = if exhaustive { (0..nbits).collect() } else { (0..200).map(|_| self.rng.below(nbits as u64) as usize).collect() };
        for b in bits {
            let mut v = bytes.clone(); v[b / 8] ^= 1 << (b % 8);
            let (field, must) = field_of(&l, b / 8, mpi_alg, &bytes);
            let r = guarded(|| match DetachedSignature::from_bytes(&v[..]) {
                Ok(s2) => {
                    let acc = s2.verify(&pk, data).is_ok();
                    // signed components of the perturbed signature vs the original
                    let bound = match (s2.signature.config(), &cfg0) {
                        (Some(c2), Some(c0)) => c2.typ == c0.typ && c2.pub_alg == c0.pub_alg && c2.hash_alg == c0.hash_alg && c2.hashed_subpackets == c0.hashed_subpackets && c2.version_specific == c0.version_specific,
                        _ => false,
                    };
                    (acc, bound)
                }
                Err(_) => (false, true),
            });
            let (acc, bound) = r.unwrap_or((false, true));
            self.report("sigbit", field, must, acc, bound, vec!["detached-sigbit".into(), hx(&bytes), b.to_string(), hx(data)], &format!("{cls}-sig-{field}"));
        }
        // truncation / extension of the signature packet
        for cut in [bytes.len() - 1, bytes.len() - 2, l.value, l.prefix] {
            let acc = guarded(|| DetachedSignature::from_bytes(&bytes[..cut]).map(|s| s.verify(&pk, data).is_ok()).unwrap_or(false)).unwrap_or(false);
            self.report("sigtrunc", "truncated", true, acc, true, vec!["detached-trunc".into(), hx(&bytes), cut.to_string()], &format!("{cls}-sig-truncated"));
        }
        // (b) the content: every bit, truncations, insertions
        if !data.is_empty() {
            let nb = data.len() * 8;
            let bits: Vec<usize> = if exhaustive && data.len() <= 64 { (0..nb).collect() } else { (0..64).map(|_| self.rng.below(nb as u64) as usize).collect() };
            for b in bits {
                let mut d = data.to_vec(); d[b / 8] ^= 1 << (b % 8);
                let acc = sig.verify(&pk, &d[..]).is_ok();
                // a text signature does not see LF <-> CRLF conversions: ask the model
                self.out.case("doc_same", &[(text as u8).to_string(), hx(data), hx(&d)], &["content-bit".into(), b.to_string()], if acc { "accept" } else { "reject" }, None, &format!("{cls}-content-bit"));
            }
            for cut in 0..data.len().min(40) {
                let d = &data[..cut];
                let acc = sig.verify(&pk, d).is_ok();
                self.out.case("doc_same", &[(text as u8).to_string(), hx(data), hx(d)], &["content-trunc".into()], if acc { "accept" } else { "reject" }, None, &format!("{cls}-content-trunc"));
            }
            for ins in [&b"x"[..], b"\n", b"\r", b"\r\n", b" "] {
                for at in [0usize, data.len() / 2, data.len()] {
                    let mut d = data[..at].to_vec(); d.extend_from_slice(ins); d.extend_from_slice(&data[at..]);
                    let acc = sig.verify(&pk, &d[..]).is_ok();
                    self.out.case("doc_same", &[(text as u8).to_string(), hx(data), hx(&d)], &["content-insert".into()], if acc { "accept" } else { "reject" }, None, &format!("{cls}-content-insert"));
                }
            }
            // LF <-> CRLF conversion of the whole document
            let crlf: Vec<u8> = { let mut o = Vec::new(); let mut p = false; for &b in data { if b == 10 && !p { o.push(13); } o.push(b); p = b == 13; } o };
            let acc = sig.verify(&pk, &crlf[..]).is_ok();
            self.out.case("doc_same", &[(text as u8).to_string(), hx(data), hx(&crlf)], &["content-crlf".into()], if acc { "accept" } else { "reject" }, None, &format!("{cls}-content-crlf"));
        }
        // (c) another key
        for o in others {
            let acc = sig.verify(o, data).is_ok();
            self.report("otherkey", "key", true, acc, true, vec!["otherkey".into()], &format!("{cls}-otherkey"));
        }
        // (d) the verifying key: every bit of the public key packet body
        let kb = pk.primary_key.to_bytes().unwrap();
        let nb = kb.len() * 8;
        let bits: Vec<usize> = if exhaustive && kb.len() <= 80 { (0..nb).collect() } else { (0..120).map(|_| self.rng.below(nb as u64) as usize).collect() };
        for b in bits {
            let mut v = kb.clone(); v[b / 8] ^= 1 << (b % 8);
            // frame as a public key packet and parse
            let mut pkt = vec![0xC0 | 6]; if v.len() < 192 { pkt.push(v.len() as u8); } else { pkt.push(((v.len() - 192) >> 8) as u8 + 192); pkt.push(((v.len() - 192) & 0xff) as u8); }
            pkt.extend_from_slice(&v);
            let acc = guarded(|| {
                let mut pp = pgp::packet::PacketParser::new(&pkt[..]);
                match pp.next() { Some(Ok(pgp::packet::Packet::PublicKey(k2))) => {
                    // accepted only matters if it is a different key than the original
                    let same = k2.to_bytes().map(|b| b == kb).unwrap_or(false);
                    !same && sig.verify(&k2, data).is_ok()
                } _ => false }
            }).unwrap_or(false);
            self.report("keybit", "key", true, acc, true, vec!["keybit".into(), hx(&kb), b.to_string()], &format!("{cls}-keybit"));
        }
    }

    /// inline (one-pass) signed message: perturb the serialised message
    fn inline(&mut self, key: &SignedSecretKey, text: bool, data: &[u8], cls: &str) {
        let pk = SignedPublicKey::from(key.clone());
        let mut b = MessageBuilder::from_bytes("", data.to_vec());
        if text { b.sign_text(); } else { b.sign_binary(); }
        b.sign(&key.primary_key, Password::empty(), key.primary_key.hash_alg());
        let Ok(msg) = b.to_vec(Rng::new(10)) else { return; };
        let check = |bytes: &[u8]| -> (bool, Vec<u8>) {
            guarded(|| {
                let Ok(mut m) = Message::from_bytes(bytes) else { return (false, vec![]); };
                let mut out = Vec::new();
                if m.read_to_end(&mut out).is_err() { return (false, out); }
                let a = m.verify(&pk).is_ok();
                // the one-call form (drain, then verify) must say the same
                let b = Message::from_bytes(bytes).ok().map(|mut m2| m2.verify_read(&pk).is_ok()).unwrap_or(false);
                (a || b, out)
            }).unwrap_or((false, vec![]))
        };
        // (accepted by either form counts as accepted: a tampered message must be refused by both)
        let both = guarded(|| { let a = Message::from_bytes(&msg[..]).ok().map(|mut m| { let mut o = Vec::new(); m.read_to_end(&mut o).is_ok() && m.verify(&pk).is_ok() }).unwrap_or(false); let b = Message::from_bytes(&msg[..]).ok().map(|mut m| m.verify_read(&pk).is_ok()).unwrap_or(false); a && b }).unwrap_or(false);
        self.out.case("", &[], &["inline-verify-read".into()], &format!("verify and verify_read accept={}", both as u8), Some(both), &format!("{cls}-verify-read"));
        let (ok0, out0) = check(&msg);
        self.out.case("", &[], &["inline-baseline".into()], &format!("verify={}", ok0 as u8), Some(ok0 && out0 == data), &format!("{cls}-baseline"));
        let nbits = msg.len() * 8;
        let n = if msg.len() <= 250 { nbits } else { 600 };
        for i in 0..n {
            let bit = if n == nbits { i } else { self.rng.below(nbits as u64) as usize };
            let mut v = msg.clone(); v[bit / 8] ^= 1 << (bit % 8);
            let (acc, out) = check(&v);
            // accepted => the payload read is the one that was signed (up to text canonicalisation, judged by the model)
            if acc {
                self.out.case("doc_same", &[(text as u8).to_string(), hx(data), hx(&out)], &["inline-bit".into(), hx(&msg), bit.to_string()], "accept", None, &format!("{cls}-accepted"));
            } else {
                self.out.case("", &[], &["inline-bit".into(), hx(&msg), bit.to_string()], "reject", Some(true), &format!("{cls}-rejected"));
            }
        }
        // type confusion: the reader takes its hashing mode from the one-pass header. A binary signature relabelled as text in
        // the header (and the reverse), with the payload's line endings rewritten so that the text-mode digest of the new
        // payload equals the binary digest of the old one, must not verify
        {
            let split = |b: &[u8]| -> Vec<Vec<u8>> { let mut v = Vec::new(); let mut d = b; while d.len() >= 2 && d[0] & 0xC0 == 0xC0 { let (hl, bl) = match d[1] { x @ 0..=191 => (2usize, x as usize), x @ 192..=223 if d.len() >= 3 => (3, ((x as usize - 192) << 8) + d[2] as usize + 192), 255 if d.len() >= 6 => (6, u32::from_be_bytes([d[2], d[3], d[4], d[5]]) as usize), _ => break }; if d.len() < hl + bl { break; } v.push(d[..hl + bl].to_vec()); d = &d[hl + bl..]; } v };
            let pkts = split(&msg);
            if pkts.len() == 3 && pkts[0][0] & 0x3f == 4 && pkts[1][0] & 0x3f == 11 && data.windows(2).any(|w| w == b"\r\n") && !data.iter().enumerate().any(|(i, b)| (*b == b'\n' && (i == 0 || data[i - 1] != b'\r')) || (*b == b'\r' && data.get(i + 1) != Some(&b'\n'))) {
                // payload with CR LF endings only: its LF-only spelling has the same text-mode digest
                let lf: Vec<u8> = { let mut o = Vec::new(); let mut i = 0; while i < data.len() { if data[i] == b'\r' && data.get(i + 1) == Some(&b'\n') { i += 1; continue; } o.push(data[i]); i += 1; } o };
                let hl = if pkts[0][1] < 192 { 2 } else { 3 };
                let mut ops = pkts[0].clone(); ops[hl + 1] ^= 1;          // type octet: binary <-> text
                let lit = { let mut b = vec![if text { b'u' } else { b'b' }, 0, 0, 0, 0, 0]; b.extend_from_slice(&lf); let mut p = vec![0xCB]; let n = b.len(); if n < 192 { p.push(n as u8); } else { p.push(((n - 192) >> 8) as u8 + 192); p.push(((n - 192) & 0xff) as u8); } p.extend(b); p };
                let forged = [ops, lit, pkts[2].clone()].concat();
                let (acc, out) = check(&forged);
                self.out.case("", &[], &["inline-type-confusion".into(), hx(&forged)], &format!("accepted={} payload-read={}", acc as u8, hx(&out[..out.len().min(40)])), Some(!acc || out == data), &format!("{cls}-type-confusion"));
            }
        }
        // the trailing Signature packet of the one-pass form: every bit of its signed fields
        // (version, type, algorithms, hashed area, digest prefix, salt) must matter, although
        // the running digest was set up from the One-Pass Signature packet in front
        let mut o = 0usize; let mut sig_off = None;
        while o + 2 <= msg.len() && msg[o] & 0xC0 == 0xC0 {
            let (hl, bl) = match msg[o + 1] { l @ 0..=191 => (2, l as usize), l @ 192..=223 if o + 3 <= msg.len() => (3, ((l as usize - 192) << 8) + msg[o + 2] as usize + 192), 255 if o + 6 <= msg.len() => (6, u32::from_be_bytes([msg[o + 2], msg[o + 3], msg[o + 4], msg[o + 5]]) as usize), _ => break };
            if msg[o] & 0x3F == 2 { sig_off = Some(o); }
            o += hl + bl;
        }
        if let (Some(so), true) = (sig_off, o == msg.len()) {
            if let Some(l) = layout(&msg[so..]) {
                for off in 0..l.value.min(msg.len() - so) {
                    let (field, must) = field_of(&l, off, true, &msg[so..]);
                    if !must || field == "header" { continue; }
                    for bitn in 0..8 {
                        let mut v = msg.clone(); v[so + off] ^= 1 << bitn;
                        let (acc, _) = check(&v);
                        self.out.case("", &[], &["inline-bit".into(), hx(&msg), ((so + off) * 8 + bitn).to_string()], &format!("trailing-sig field={field} accepted={}", acc as u8), Some(!acc), &format!("{cls}-trailing-{field}"));
                    }
                }
            }
        }
    }

    /// components carrying several signatures: a bad one among good ones, in every position, is never accepted
    fn several_signatures(&mut self, key: &SignedSecretKey, other: &SignedSecretKey, cls: &str) {
        use pgp::packet::{Packet, PacketParser};
        let pk = SignedPublicKey::from(key.clone());
        let opk = SignedPublicKey::from(other.clone());
        let reparse = |sig: &pgp::packet::Signature, flip_from_end: usize| -> Option<pgp::packet::Signature> {
            let mut w = Packet::from(sig.clone()).to_bytes().ok()?; let n = w.len(); w[n - 1 - flip_from_end] ^= 0x10;
            match PacketParser::new(&w[..]).next()?.ok()? { Packet::Signature(s) => Some(s), _ => None }
        };
        // subkeys
        if let (Some(sub), Some(osub)) = (pk.public_subkeys.first(), opk.public_subkeys.first()) {
            if let (Some(good), Some(foreign)) = (sub.signatures.first().cloned(), osub.signatures.first().cloned()) {
                let mut bads: Vec<(&str, pgp::packet::Signature)> = vec![("foreign-binding", foreign)];
                if let Some(b) = reparse(&good, 3) { bads.push(("value-bit", b)); }
                for (bn, bad) in bads {
                    for (on, order) in [("good-bad", vec![good.clone(), bad.clone()]), ("bad-good", vec![bad.clone(), good.clone()]), ("good-good-bad", vec![good.clone(), good.clone(), bad.clone()]), ("bad", vec![bad.clone()])] {
                        let mut p2 = pk.clone(); p2.public_subkeys[0].signatures = order;
                        let acc = guarded(|| p2.verify_bindings().is_ok()).unwrap_or(true);
                        // ... and through the wire
                        let acc2 = guarded(|| p2.to_bytes().ok().and_then(|b| SignedPublicKey::from_bytes(&b[..]).ok()).map(|p| p.verify_bindings().is_ok())).ok().flatten().unwrap_or(false);
                        self.out.case("", &[], &["several-signatures".into(), cls.into(), "subkey".into(), bn.into(), on.into()], &format!("accepted={} after-reparse={}", acc as u8, acc2 as u8), Some(!acc && !acc2), &format!("{cls}-subkey-several-{on}"));
                        // the secret-key twin of the same check
                        if !key.secret_subkeys.is_empty() {
                            let mut s2 = key.clone(); s2.secret_subkeys[0].signatures = p2.public_subkeys[0].signatures.clone();
                            let acc3 = guarded(|| s2.verify_bindings().is_ok()).unwrap_or(true);
                            self.out.case("", &[], &["several-signatures".into(), cls.into(), "secret-subkey".into(), bn.into(), on.into()], &format!("accepted={}", acc3 as u8), Some(!acc3), &format!("{cls}-secret-subkey-several-{on}"));
                        }
                    }
                }
                let mut p2 = pk.clone(); p2.public_subkeys[0].signatures = vec![good.clone(), good.clone()];
                let acc = guarded(|| p2.verify_bindings().is_ok()).unwrap_or(false);
                self.out.case("", &[], &["several-signatures".into(), cls.into(), "subkey".into(), "none".into(), "good-good".into()], &format!("accepted={}", acc as u8), Some(acc), &format!("{cls}-subkey-several-control"));
            }
        }
        // user ids
        if let (Some(u), Some(ou)) = (pk.details.users.first(), opk.details.users.first()) {
            if let (Some(good), Some(foreign)) = (u.signatures.first().cloned(), ou.signatures.first().cloned()) {
                let mut bads: Vec<(&str, pgp::packet::Signature)> = vec![("foreign-certification", foreign)];
                if let Some(b) = reparse(&good, 3) { bads.push(("value-bit", b)); }
                for (bn, bad) in bads {
                    for (on, order) in [("good-bad", vec![good.clone(), bad.clone()]), ("bad-good", vec![bad.clone(), good.clone()]), ("bad", vec![bad.clone()])] {
                        let mut p2 = pk.clone(); p2.details.users[0].signatures = order;
                        let acc = guarded(|| p2.verify_bindings().is_ok()).unwrap_or(true);
                        self.out.case("", &[], &["several-signatures".into(), cls.into(), "userid".into(), bn.into(), on.into()], &format!("accepted={}", acc as u8), Some(!acc), &format!("{cls}-userid-several-{on}"));
                    }
                }
            }
        }
    }

    /// a certificate with a certified user attribute (photo id): every bit of the attribute packet -- subpacket length, type,
    /// image header (length, version, format, reserved octets) and image octets -- is covered by the certification
    fn attribute_certificate(&mut self, ver: KeyVersion, seed: u64, cls: &str) {
        use pgp::composed::{SecretKeyParamsBuilder};
        use pgp::packet::UserAttribute;
        let built = guarded(|| -> Option<SignedSecretKey> {
            let ua = UserAttribute::new_image((0..40u8).map(|i| i.wrapping_mul(13).wrapping_add(1)).collect::<Vec<u8>>().into()).ok()?;
            let mut pb = SecretKeyParamsBuilder::default();
            pb.version(ver).key_type(if ver == KeyVersion::V6 { KeyType::Ed25519 } else { KeyType::Ed25519Legacy }).can_certify(true).can_sign(true).primary_user_id("photo <p@example.org>".into()).user_attributes(vec![ua]);
            pb.build().ok()?.generate(Rng::new(seed)).ok()
        });
        let Ok(Some(k)) = built else { self.out.case("", &[], &["attr-cert".into(), cls.into()], "key generation failed", Some(false), &format!("{cls}-unavailable")); return; };
        let pk = SignedPublicKey::from(k);
        let Ok(bytes) = pk.to_bytes() else { return; };
        let ok0 = pk.verify_bindings().is_ok() && !pk.details.user_attributes.is_empty();
        self.out.case("", &[], &["attr-cert-baseline".into(), cls.into()], &format!("verify={} attributes={}", ok0 as u8, pk.details.user_attributes.len()), Some(ok0), &format!("{cls}-baseline"));
        // locate the attribute packet (tag 17)
        let mut pos = 0usize; let mut span = None;
        while pos + 2 <= bytes.len() { let tag = bytes[pos] & 0x3f; let (hl, bl) = match bytes[pos + 1] { x @ 0..=191 => (2usize, x as usize), x @ 192..=223 => (3, ((x as usize - 192) << 8) + bytes[pos + 2] as usize + 192), 255 => (6, u32::from_be_bytes([bytes[pos + 2], bytes[pos + 3], bytes[pos + 4], bytes[pos + 5]]) as usize), _ => break }; if tag == 17 { span = Some((pos + hl, bl)); break; } pos += hl + bl; }
        let Some((at, len)) = span else { self.out.case("", &[], &["attr-cert".into(), cls.into()], "no attribute packet written", Some(false), &format!("{cls}-unavailable")); return; };
        for bit in 0..len * 8 {
            let mut v = bytes.clone(); v[at + bit / 8] ^= 1 << (bit % 8);
            // accepted means: parsed, the attribute is still there with its certification, and the bindings verify
            let acc = guarded(|| match SignedPublicKey::from_bytes(&v[..]) { Ok(p2) => p2.details.user_attributes.iter().any(|u| !u.signatures.is_empty()) && p2.verify_bindings().is_ok(), Err(_) => false }).unwrap_or(false);
            let field = match bit / 8 { 0 => "subpacket-length", 1 => "subpacket-type", 2 | 3 => "image-header-length", 4 => "image-header-version", 5 => "image-format", 6..=17 => "image-header-reserved", _ => "image" };
            self.report("attrbit", field, true, acc, false, vec!["attr-cert-bit".into(), hx(&bytes), (at * 8 + bit).to_string()], &format!("{cls}-{field}"));
        }
    }

    /// certificate: every bit of the transferable public key; verify_bindings must fail or the cert must be unchanged in its signed parts
    fn certificate(&mut self, key: &SignedSecretKey, cls: &str) {
        let pk = SignedPublicKey::from(key.clone());
        let bytes = pk.to_bytes().unwrap();
        let ok0 = pk.verify_bindings().is_ok();
        self.out.case("", &[], &["cert-baseline".into()], &format!("verify={}", ok0 as u8), Some(ok0), &format!("{cls}-baseline"));
        // which octets are covered by signatures: key packets, user ids, hashed parts of signatures. Everything outside signature packets' unhashed areas and MPI counts.
        let nbits = bytes.len() * 8;
        let n = if bytes.len() <= 400 { nbits } else { 1500 };
        for i in 0..n {
            let bit = if n == nbits { i } else { self.rng.below(nbits as u64) as usize };
            let mut v = bytes.clone(); v[bit / 8] ^= 1 << (bit % 8);
            let r = guarded(|| match SignedPublicKey::from_bytes(&v[..]) {
                Ok(p2) => {
                    let acc = p2.verify_bindings().is_ok();
                    // signed components: primary key body, user ids, subkey bodies, hashed areas of all signatures
                    // every signed component that is still present and certified must be an original one
                    // (a flip may turn a packet into something the parser drops: a smaller certificate is not a forgery)
                    let orig_sigs = sigs_hashed(&pk);
                    let new_sigs = sigs_hashed(&p2);
                    let orig_ids: Vec<Vec<u8>> = pk.details.users.iter().map(|u| u.id.id().to_vec()).collect();
                    let orig_subs: Vec<Option<Vec<u8>>> = pk.public_subkeys.iter().map(|s| s.key.to_bytes().ok()).collect();
                    let same = new_sigs.iter().all(|s| orig_sigs.contains(s))
                        && (new_sigs.is_empty() || p2.primary_key.to_bytes().ok() == pk.primary_key.to_bytes().ok())
                        && p2.details.users.iter().filter(|u| !u.signatures.is_empty()).all(|u| orig_ids.contains(&u.id.id().to_vec()))
                        && p2.public_subkeys.iter().filter(|s| !s.signatures.is_empty()).all(|s| orig_subs.contains(&s.key.to_bytes().ok()));
                    (acc, same)
                }
                Err(_) => (false, true),
            });
            let (acc, same) = r.unwrap_or((false, true));
            self.report("certbit", "cert", false, acc, same, vec!["cert-bit".into(), hx(&bytes), bit.to_string()], &format!("{cls}-{}", if acc { "accepted" } else { "rejected" }));
        }
    }
    /// certificate-forming signatures, each through every entry point that verifies its kind:
    /// every bit of the signature packet, another signee, another signer
    fn keysigs(&mut self, ver: KeyVersion, kt: KeyType, seed: u64, cls: &str) {
        use pgp::composed::{SecretKeyParamsBuilder, SubkeyParamsBuilder};
        use pgp::packet::{Packet, PacketParser, Signature, SignatureConfig, SignatureType, Subpacket, SubpacketData, UserId};
        use pgp::types::{Tag, Timestamp};
        let gen = |seed: u64, uid: &str| guarded(|| -> Option<SignedSecretKey> {
            let mut sb = SubkeyParamsBuilder::default(); sb.version(ver).key_type(kt.clone()).can_sign(true);
            let mut p = SecretKeyParamsBuilder::default();
            p.version(ver).key_type(kt.clone()).can_certify(true).can_sign(true).primary_user_id(uid.into()).subkeys(vec![sb.build().ok()?]);
            p.build().ok()?.generate(Rng::new(seed)).ok()
        }).ok().flatten();
        let (Some(a), Some(o)) = (gen(seed, "a <a@example.org>"), gen(seed + 1, "o <o@example.org>")) else { self.out.case("", &[], &["keysigs-gen".into()], "ERR gen", Some(false), cls); return; };
        let pw = Password::empty();
        let (ap, op) = (a.primary_key.public_key(), o.primary_key.public_key());
        let (asub, osub) = (&a.secret_subkeys[0].key, &o.secret_subkeys[0].key);
        let (asp, osp) = (asub.public_key(), osub.public_key());
        let uid = UserId::from_str(Default::default(), "a <a@example.org>").unwrap();
        let uid2 = UserId::from_str(Default::default(), "a <a@example.org> ").unwrap();
        let cfg = |k: &dyn Fn(Rng) -> pgp::errors::Result<SignatureConfig>, fp: pgp::types::Fingerprint| -> Option<SignatureConfig> {
            let mut c = k(Rng::new(77)).ok()?;
            c.hashed_subpackets = vec![Subpacket::regular(SubpacketData::SignatureCreationTime(Timestamp::from_secs(1_700_000_000))).ok()?, Subpacket::regular(SubpacketData::IssuerFingerprint(fp)).ok()?];
            Some(c)
        };
        let mpi_alg = !matches!(a.primary_key.algorithm(), pgp::crypto::public_key::PublicKeyAlgorithm::Ed25519 | pgp::crypto::public_key::PublicKeyAlgorithm::Ed448);
        // (kind, signature, verifier over the honest objects, verifiers that must all reject the honest signature)
        type V<'x> = Box<dyn Fn(&Signature) -> bool + 'x>;
        let mut kinds: Vec<(String, Signature, Vec<(&str, V)>, Vec<(&str, V)>)> = Vec::new();
        for (tn, typ) in [("direct-key", SignatureType::Key), ("key-revocation", SignatureType::KeyRevocation)] {
            if let Some(sig) = cfg(&|r| SignatureConfig::from_key(r, &a.primary_key, typ), a.primary_key.fingerprint()).and_then(|c| c.sign_key(&a.primary_key, &pw, &ap).ok()) {
                kinds.push((tn.into(), sig, vec![("verify_key", Box::new(|s: &Signature| s.verify_key(&ap).is_ok()) as V), ("verify_key_third_party", Box::new(|s: &Signature| s.verify_key_third_party(&ap, &ap).is_ok()))],
                    vec![("other-signee", Box::new(|s: &Signature| s.verify_key_third_party(&op, &ap).is_ok()) as V), ("other-signer", Box::new(|s: &Signature| s.verify_key_third_party(&ap, &op).is_ok())), ("other-key", Box::new(|s: &Signature| s.verify_key(&op).is_ok())), ("as-subkey-binding", Box::new(|s: &Signature| s.verify_subkey_binding(&ap, &asp).is_ok())), ("as-certification", Box::new(|s: &Signature| s.verify_certification(&ap, Tag::UserId, &uid).is_ok()))]));
            }
            // third party: o signs over a
            if let Some(sig) = cfg(&|r| SignatureConfig::from_key(r, &o.primary_key, typ), o.primary_key.fingerprint()).and_then(|c| c.sign_key(&o.primary_key, &pw, &ap).ok()) {
                kinds.push((format!("{tn}-third-party"), sig, vec![("verify_key_third_party", Box::new(|s: &Signature| s.verify_key_third_party(&ap, &op).is_ok()) as V)],
                    vec![("self", Box::new(|s: &Signature| s.verify_key(&ap).is_ok()) as V), ("swapped", Box::new(|s: &Signature| s.verify_key_third_party(&op, &ap).is_ok())), ("signer-as-signee", Box::new(|s: &Signature| s.verify_key(&op).is_ok()))]));
            }
        }
        for (tn, typ) in [("cert-generic", SignatureType::CertGeneric), ("cert-persona", SignatureType::CertPersona), ("cert-casual", SignatureType::CertCasual), ("cert-positive", SignatureType::CertPositive), ("cert-revocation", SignatureType::CertRevocation)] {
            if let Some(sig) = cfg(&|r| SignatureConfig::from_key(r, &a.primary_key, typ), a.primary_key.fingerprint()).and_then(|c| c.sign_certification(&a.primary_key, &ap, &pw, Tag::UserId, &uid).ok()) {
                kinds.push((tn.into(), sig, vec![("verify_certification", Box::new(|s: &Signature| s.verify_certification(&ap, Tag::UserId, &uid).is_ok()) as V), ("verify_third_party_certification", Box::new(|s: &Signature| s.verify_third_party_certification(&ap, &ap, Tag::UserId, &uid).is_ok()))],
                    vec![("other-uid", Box::new(|s: &Signature| s.verify_certification(&ap, Tag::UserId, &uid2).is_ok()) as V), ("other-key", Box::new(|s: &Signature| s.verify_certification(&op, Tag::UserId, &uid).is_ok())), ("other-signee", Box::new(|s: &Signature| s.verify_third_party_certification(&op, &ap, Tag::UserId, &uid).is_ok())), ("other-signer", Box::new(|s: &Signature| s.verify_third_party_certification(&ap, &op, Tag::UserId, &uid).is_ok())), ("as-key", Box::new(|s: &Signature| s.verify_key(&ap).is_ok()))]));
            }
            if let Some(sig) = cfg(&|r| SignatureConfig::from_key(r, &o.primary_key, typ), o.primary_key.fingerprint()).and_then(|c| c.sign_certification_third_party(&o.primary_key, &pw, &ap, Tag::UserId, &uid).ok()) {
                kinds.push((format!("{tn}-third-party"), sig, vec![("verify_third_party_certification", Box::new(|s: &Signature| s.verify_third_party_certification(&ap, &op, Tag::UserId, &uid).is_ok()) as V)],
                    vec![("self", Box::new(|s: &Signature| s.verify_certification(&ap, Tag::UserId, &uid).is_ok()) as V), ("swapped", Box::new(|s: &Signature| s.verify_third_party_certification(&op, &ap, Tag::UserId, &uid).is_ok())), ("other-uid", Box::new(|s: &Signature| s.verify_third_party_certification(&ap, &op, Tag::UserId, &uid2).is_ok()))]));
            }
        }
        for (tn, typ) in [("subkey-binding", SignatureType::SubkeyBinding), ("subkey-revocation", SignatureType::SubkeyRevocation)] {
            if let Some(sig) = cfg(&|r| SignatureConfig::from_key(r, &a.primary_key, typ), a.primary_key.fingerprint()).and_then(|c| c.sign_subkey_binding(&a.primary_key, &ap, &pw, &asp).ok()) {
                kinds.push((tn.into(), sig, vec![("verify_subkey_binding", Box::new(|s: &Signature| s.verify_subkey_binding(&ap, &asp).is_ok()) as V)],
                    vec![("other-subkey", Box::new(|s: &Signature| s.verify_subkey_binding(&ap, &osp).is_ok()) as V), ("other-primary", Box::new(|s: &Signature| s.verify_subkey_binding(&op, &asp).is_ok())), ("as-primary-binding", Box::new(|s: &Signature| s.verify_primary_key_binding(&asp, &ap).is_ok())), ("as-key", Box::new(|s: &Signature| s.verify_key(&ap).is_ok()))]));
            }
        }
        if let Some(sig) = cfg(&|r| SignatureConfig::from_key(r, asub, SignatureType::KeyBinding), asub.fingerprint()).and_then(|c| c.sign_primary_key_binding(asub, &asp, &pw, &ap).ok()) {
            kinds.push(("primary-key-binding".into(), sig, vec![("verify_primary_key_binding", Box::new(|s: &Signature| s.verify_primary_key_binding(&asp, &ap).is_ok()) as V)],
                vec![("other-primary", Box::new(|s: &Signature| s.verify_primary_key_binding(&asp, &op).is_ok()) as V), ("other-subkey", Box::new(|s: &Signature| s.verify_primary_key_binding(&osp, &ap).is_ok())), ("as-subkey-binding", Box::new(|s: &Signature| s.verify_subkey_binding(&ap, &asp).is_ok()))]));
        }
        let _ = osub;
        for (kind, sig, accept, reject) in &kinds {
            let Ok(bytes) = Packet::from(sig.clone()).to_bytes() else { continue; };
            for (en, f) in accept {
                let ok = guarded(|| f(sig)).unwrap_or(false);
                self.out.case("", &[], &["keysig-baseline".into(), kind.clone(), en.to_string()], &format!("verify={}", ok as u8), Some(ok), &format!("{cls}-{kind}-baseline"));
            }
            for (en, f) in reject {
                let acc = guarded(|| f(sig)).unwrap_or(false);
                self.report("keysig-wrong-object", en, true, acc, true, vec!["keysig-wrong-object".into(), kind.clone(), en.to_string(), hx(&bytes)], &format!("{cls}-{kind}-wrong-object"));
            }
            let Some(l) = layout(&bytes) else { continue; };
            let cfg0 = sig.config().cloned();
            for b in 0..bytes.len() * 8 {
                let (field, must) = field_of(&l, b / 8, mpi_alg, &bytes);
                if field == "unhashed" || field == "unhashed-len" { if b % 3 != 0 { continue; } }
                let mut v = bytes.clone(); v[b / 8] ^= 1 << (b % 8);
                let parsed = guarded(|| match PacketParser::new(&v[..]).next() { Some(Ok(Packet::Signature(s2))) => Some(s2), _ => None }).ok().flatten();
                for (en, f) in accept {
                    let (acc, bound) = match &parsed {
                        Some(s2) => (guarded(|| f(s2)).unwrap_or(false), match (s2.config(), &cfg0) { (Some(c2), Some(c0)) => c2.typ == c0.typ && c2.pub_alg == c0.pub_alg && c2.hash_alg == c0.hash_alg && c2.hashed_subpackets == c0.hashed_subpackets && c2.version_specific == c0.version_specific, _ => false }),
                        None => (false, true),
                    };
                    self.report("keysig-bit", field, must, acc, bound, vec!["keysig-bit".into(), kind.clone(), en.to_string(), hx(&bytes), b.to_string()], &format!("{cls}-{kind}-{field}"));
                }
            }
        }
        // the same signatures inside a certificate: verify_bindings over every bit of the direct-key and revocation signatures
        let mut pk = SignedPublicKey::from(a.clone());
        for (kind, sig, _, _) in &kinds {
            if kind == "direct-key" { pk.details.direct_signatures.push(sig.clone()); }
            if kind == "key-revocation" { pk.details.revocation_signatures.push(sig.clone()); }
        }
        let ok0 = guarded(|| pk.verify_bindings().is_ok()).unwrap_or(false);
        self.out.case("", &[], &["keysig-cert-baseline".into()], &format!("verify={}", ok0 as u8), Some(ok0), &format!("{cls}-cert-baseline"));
        for which in ["direct", "revocation"] {
            let sig = if which == "direct" { pk.details.direct_signatures.last().cloned() } else { pk.details.revocation_signatures.last().cloned() };
            let Some(sig) = sig else { continue; };
            let Ok(bytes) = Packet::from(sig.clone()).to_bytes() else { continue; };
            let Some(l) = layout(&bytes) else { continue; };
            for b in 0..bytes.len() * 8 {
                let (field, must) = field_of(&l, b / 8, mpi_alg, &bytes);
                if !must || field == "header" { continue; }
                let mut v = bytes.clone(); v[b / 8] ^= 1 << (b % 8);
                let Some(s2) = guarded(|| match PacketParser::new(&v[..]).next() { Some(Ok(Packet::Signature(s2))) => Some(s2), _ => None }).ok().flatten() else { continue; };
                let mut p2 = pk.clone();
                if which == "direct" { *p2.details.direct_signatures.last_mut().unwrap() = s2; } else { *p2.details.revocation_signatures.last_mut().unwrap() = s2; }
                let acc = guarded(|| p2.verify_bindings().is_ok()).unwrap_or(false);
                self.report("keysig-cert-bit", field, true, acc, true, vec!["keysig-cert-bit".into(), which.into(), hx(&bytes), b.to_string()], &format!("{cls}-cert-{which}-{field}"));
            }
        }
    }
}

fn sigs_hashed(p: &SignedPublicKey) -> Vec<Vec<u8>> {
    let mut v = Vec::new();
    let mut push = |s: &pgp::packet::Signature| { if let Some(c) = s.config() { let mut b = vec![u8::from(c.typ), u8::from(c.pub_alg), u8::from(c.hash_alg)]; for sp in &c.hashed_subpackets { let _ = sp.to_writer(&mut b); } v.push(b); } };
    for s in &p.details.revocation_signatures { push(s); }
    for s in &p.details.direct_signatures { push(s); }
    for u in &p.details.users { for s in &u.signatures { push(s); } }
    for k in &p.public_subkeys { for s in &k.signatures { push(s); } }
    v
}

fn main() {
    quiet_panics();
    let cli = cli();
    let mut cx = Ctx { out: Out::new(), rng: Rng::new(cli.seed) };
    if cli.mode == "replay" { cx.out.finish(); return; }
    let thorough = cli.tier == "thorough";
    let keys: Vec<(SignedSecretKey, &str)> = vec![
        (gen_key(KeyVersion::V4, KeyType::Ed25519Legacy, 201), "ed25519legacy-v4"),
        (gen_key(KeyVersion::V6, KeyType::Ed25519, 202), "ed25519-v6"),
        (gen_key(KeyVersion::V4, KeyType::ECDSA(ECCCurve::P256), 203), "ecdsa-p256-v4"),
        (gen_key(KeyVersion::V4, KeyType::Rsa(2048), 204), "rsa2048-v4"),
        (gen_key(KeyVersion::V6, KeyType::Ed448, 205), "ed448-v6"),
    ];
    let pubs: Vec<SignedPublicKey> = keys.iter().map(|(k, _)| SignedPublicKey::from(k.clone())).collect();
    for (i, (key, name)) in keys.iter().enumerate() {
        let others: Vec<SignedPublicKey> = pubs.iter().enumerate().filter(|(j, _)| *j != i).map(|(_, p)| p.clone()).collect();
        let h = key.primary_key.hash_alg();
        let exhaustive = thorough || i < 2 || name.starts_with("ecdsa");
        cx.detached(key, &others, false, h, b"hello world, this is signed\n", exhaustive, &format!("detached-bin-{name}"));
        cx.detached(key, &others, true, h, b"line one\nline two\r\nthree \r x\n", exhaustive && i < 2, &format!("detached-text-{name}"));
        if i < 4 || thorough { cx.detached(key, &others[..1], i % 2 == 1, h, b"signed with a rich hashed area\n", i < 2 || thorough, &format!("detached-rich-{name}")); }
        // text documents that end right at the line-ending normaliser's 512-octet window (one octet below, at, above
        // it and at the second window): an inserted or removed CR / LF at the edge must not go unnoticed
        if i < 2 || thorough {
            for n in [511usize, 512, 513, 1023, 1024] {
                let mut d: Vec<u8> = (0..n).map(|j| if j % 97 == 96 { b'\n' } else { b'a' + (j % 26) as u8 }).collect();
                if n % 2 == 0 { *d.last_mut().unwrap() = b'\r'; }
                cx.detached(key, &others[..1], true, h, &d, false, &format!("detached-text-window-{name}"));
            }
        }
        if i < 3 || thorough {
            cx.inline(key, false, b"inline payload 123", &format!("inline-bin-{name}"));
            cx.inline(key, true, b"text\npayload\r\n", &format!("inline-text-{name}"));
            cx.inline(key, false, b"line one\r\nline two\r\n", &format!("inline-bin-crlf-{name}"));
        }
    }
    cx.certificate(&gen_key_with_subkey(KeyVersion::V4, 210), "cert-v4");
    cx.certificate(&gen_key_with_subkey(KeyVersion::V6, 211), "cert-v6");
    cx.attribute_certificate(KeyVersion::V4, 214, "attr-cert-v4");
    cx.attribute_certificate(KeyVersion::V6, 215, "attr-cert-v6");
    cx.several_signatures(&gen_key_with_subkey(KeyVersion::V4, 210), &gen_key_with_subkey(KeyVersion::V4, 212), "cert-v4");
    cx.several_signatures(&gen_key_with_subkey(KeyVersion::V6, 211), &gen_key_with_subkey(KeyVersion::V6, 213), "cert-v6");
    cx.keysigs(KeyVersion::V4, KeyType::Ed25519Legacy, 220, "keysig-v4-eddsa");
    cx.keysigs(KeyVersion::V6, KeyType::Ed25519, 222, "keysig-v6-ed25519");
    if thorough {
        cx.keysigs(KeyVersion::V4, KeyType::ECDSA(ECCCurve::P256), 224, "keysig-v4-p256");
        cx.keysigs(KeyVersion::V6, KeyType::Ed448, 226, "keysig-v6-ed448");
        cx.keysigs(KeyVersion::V4, KeyType::Rsa(2048), 228, "keysig-v4-rsa");
    }
    cx.out.finish();
}
