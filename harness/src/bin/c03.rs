//! C03: ciphertext integrity -- a modified encrypted stream never decrypts cleanly.
use std::io::Read;

use pgp::crypto::aead::{AeadAlgorithm, ChunkSize, StreamDecryptor as AeadDecryptor};
use pgp::crypto::sym::SymmetricKeyAlgorithm;
use vh::*;

fn sym_of(n: u8) -> SymmetricKeyAlgorithm { SymmetricKeyAlgorithm::from(n) }
fn aead_of(n: u8) -> AeadAlgorithm { AeadAlgorithm::from(n) }
fn cs_of(n: u8) -> Option<ChunkSize> { ChunkSize::try_from(n).ok() }

#[derive(Clone)]
struct V2 { sym: u8, aead: u8, cs: u8, sk: Vec<u8>, salt: [u8; 32] }

impl V2 {
    fn args(&self) -> Vec<String> {
        vec![self.sym.to_string(), self.aead.to_string(), self.cs.to_string(), hx(&self.sk), hx(&self.salt)]
    }
}

fn v2_encrypt(p: &V2, plain: &[u8], src: &[usize]) -> Result<Vec<u8>, String> {
    guarded(|| -> Result<Vec<u8>, String> {
        let cs = cs_of(p.cs).ok_or("chunk size")?;
        let mut e = pgp::verif_hooks::aead_stream_encryptor(sym_of(p.sym), aead_of(p.aead), cs, &p.sk, &p.salt,
            SchedReader::new(plain.to_vec(), src.to_vec())).map_err(|e| e.to_string())?;
        let mut out = Vec::new();
        e.read_to_end(&mut out).map_err(|e| e.to_string())?;
        Ok(out)
    }).and_then(|r| r)
}

/// library decryption of `ct`: "OK <plaintext>" on a clean end, "ERR <released>" otherwise
fn v2_decrypt(p: &V2, ct: &[u8], src: &[usize], consumer: u8, reqs: &[usize]) -> String {
    let r = guarded(|| -> Result<String, String> {
        let cs = cs_of(p.cs).ok_or("chunk size")?;
        let mut d = AeadDecryptor::new_rfc9580(sym_of(p.sym), aead_of(p.aead), cs, &p.salt, &p.sk,
            SchedBufReader::new(ct.to_vec(), src.to_vec())).map_err(|e| e.to_string())?;
        let (out, res) = match consumer {
            0 => consume_to_end(&mut d),
            1 => consume_read(&mut d, reqs),
            _ => consume_bufread(&mut d, reqs),
        };
        Ok(match res { Ok(()) => format!("OK {}", hx(&out)), Err(_) => format!("ERR {}", hx(&out)) })
    });
    match r { Ok(Ok(s)) => s, Ok(Err(_)) => "ERR -".into(), Err(p) => p }
}

// ------------------------------------------------------------------ SEIPD v1

fn v1_encrypt(sym: u8, key: &[u8], plain: &[u8], seed: u64, src: &[usize]) -> Result<Vec<u8>, String> {
    guarded(|| -> Result<Vec<u8>, String> {
        let mut e = sym_of(sym).stream_encryptor(Rng::new(seed), key, SchedReader::new(plain.to_vec(), src.to_vec())).map_err(|e| e.to_string())?;
        let mut out = Vec::new();
        e.read_to_end(&mut out).map_err(|e| e.to_string())?;
        Ok(out)
    }).and_then(|r| r)
}

/// mode: 0 = CheckFirst{max}, 1 = Streaming
fn v1_decrypt(sym: u8, key: &[u8], mode: u8, max: usize, ct: &[u8], src: &[usize], consumer: u8, reqs: &[usize]) -> String {
    use pgp::types::Seipdv1ReadMode;
    let r = guarded(|| -> Result<String, String> {
        let m = if mode == 0 { Seipdv1ReadMode::CheckFirst { max_message_size: max } } else { Seipdv1ReadMode::Streaming };
        let mut d = sym_of(sym).stream_decryptor_protected(m, key, SchedBufReader::new(ct.to_vec(), src.to_vec())).map_err(|e| e.to_string())?;
        let (out, res) = match consumer {
            0 => consume_to_end(&mut d),
            1 => consume_read(&mut d, reqs),
            _ => consume_bufread(&mut d, reqs),
        };
        Ok(match res { Ok(()) => format!("OK {}", hx(&out)), Err(_) => format!("ERR {}", hx(&out)) })
    });
    match r { Ok(Ok(s)) => s, Ok(Err(_)) => "ERR -".into(), Err(p) => p }
}


// ------------------------------------------------------------------ Message level

/// password-encrypted message around a literal packet of `data` (v2: SEIPDv2 OCB, 64-octet chunks)
fn msg_build(v2: bool, sym: u8, data: &[u8], seed: u64) -> Option<Vec<u8>> {
    use pgp::composed::MessageBuilder;
    use pgp::types::{Password, StringToKey};
    let pw = Password::from("c03 message");
    let s2k = StringToKey::Salted { hash_alg: pgp::crypto::hash::HashAlgorithm::Sha256, salt: [7u8; 8] };
    guarded(|| {
        if v2 { let mut b = MessageBuilder::from_bytes("", data.to_vec()).seipd_v2(Rng::new(seed), sym_of(sym), AeadAlgorithm::Ocb, ChunkSize::C64B); b.encrypt_with_password(Rng::new(seed ^ 3), s2k, &pw).ok()?; b.to_vec(Rng::new(seed ^ 2)).ok() }
        else { let mut b = MessageBuilder::from_bytes("", data.to_vec()).seipd_v1(Rng::new(seed), sym_of(sym)); b.encrypt_with_password(s2k, &pw).ok()?; b.to_vec(Rng::new(seed ^ 2)).ok() }
    }).ok().flatten()
}

/// "OK <payload>" when decrypting and reading to the end ends cleanly, "ERR <released payload>" otherwise
fn msg_read(msg: &[u8], mode: u8, consumer: u8, reqs: &[usize]) -> String {
    use pgp::composed::{DecryptionOptions, Message, TheRing};
    use pgp::types::{Password, Seipdv1ReadMode};
    let r = guarded(|| -> Result<String, String> {
        let pw = Password::from("c03 message");
        let m = Message::from_bytes(msg).map_err(|e| e.to_string())?;
        let rm = if mode == 0 { Seipdv1ReadMode::CheckFirst { max_message_size: 1 << 30 } } else { Seipdv1ReadMode::Streaming };
        let ring = TheRing { message_password: vec![&pw], decrypt_options: DecryptionOptions::new().set_seipdv1_read_mode(rm), ..Default::default() };
        let (mut m, _) = m.decrypt_the_ring(ring, true).map_err(|e| e.to_string())?;
        let (out, res) = match consumer {
            0 => consume_to_end(&mut m),
            1 => consume_read(&mut m, reqs),
            _ => consume_bufread(&mut m, reqs),
        };
        Ok(match res { Ok(()) => format!("OK {}", hx(&out)), Err(_) => format!("ERR {}", hx(&out)) })
    });
    match r { Ok(Ok(s)) => s, Ok(Err(_)) => "ERR -".into(), Err(p) => p }
}

/// (offset of the body, end) of the first packet with this type in a sequence of new-format, fixed-length packets
fn find_packet(msg: &[u8], typ: u8) -> Option<(usize, usize)> {
    let mut o = 0usize;
    while o + 2 <= msg.len() && msg[o] & 0xC0 == 0xC0 {
        let (hl, bl) = match msg[o + 1] { l @ 0..=191 => (2, l as usize), l @ 192..=223 if o + 3 <= msg.len() => (3, ((l as usize - 192) << 8) + msg[o + 2] as usize + 192), 255 if o + 6 <= msg.len() => (6, u32::from_be_bytes([msg[o + 2], msg[o + 3], msg[o + 4], msg[o + 5]]) as usize), _ => return None };
        if msg[o] & 0x3F == typ { return (o + hl + bl <= msg.len()).then_some((o + hl, o + hl + bl)); }
        o += hl + bl;
    }
    None
}

/// the same packet with another body (new-format header, minimal length)
fn reframe(msg: &[u8], body_at: (usize, usize), body: &[u8]) -> Vec<u8> {
    let mut start = body_at.0; // walk back to the packet's first octet
    for hl in [2usize, 3, 6] { if body_at.0 >= hl && msg[body_at.0 - hl] & 0xC0 == 0xC0 && msg[body_at.0 - hl] & 0x3F == 18 { start = body_at.0 - hl; break; } }
    let mut v = msg[..start].to_vec();
    v.push(0xC0 | 18);
    let n = body.len();
    if n < 192 { v.push(n as u8); } else if n < 8384 { v.push(((n - 192) >> 8) as u8 + 192); v.push(((n - 192) & 0xff) as u8); } else { v.push(255); v.extend_from_slice(&(n as u32).to_be_bytes()); }
    v.extend_from_slice(body);
    v.extend_from_slice(&msg[body_at.1..]);
    v
}

struct MsgCase { v2: bool, sym: u8, n: usize, seed: u64, data: Vec<u8>, msg: Vec<u8>, bs: usize, be: usize }

impl MsgCase {
    fn new(v2: bool, sym: u8, n: usize, seed: u64) -> Option<Self> {
        let data = Rng::new(seed ^ 0x5eed).bytes(n);
        let msg = msg_build(v2, sym, &data, seed)?;
        let (bs, be) = find_packet(&msg, 18)?;
        Some(MsgCase { v2, sym, n, seed, data, msg, bs, be })
    }
    fn changed(&self, what: &str) -> Vec<u8> {
        let p: Vec<&str> = what.split(':').collect();
        let num = |i: usize| -> usize { p.get(i).and_then(|x| x.parse().ok()).unwrap_or(0) };
        let body = &self.msg[self.bs..self.be];
        match p[0] {
            "flip" => { let mut v = self.msg.clone(); v[self.bs + num(1)] ^= 1 << (num(2) % 8); v }
            "trunc" => reframe(&self.msg, (self.bs, self.be), &body[..num(1).min(body.len())]),
            "append" => { let mut b2 = body.to_vec(); b2.extend(Rng::new(self.seed ^ 0xadd).bytes(num(1))); reframe(&self.msg, (self.bs, self.be), &b2) }
            "cut" => self.msg[..num(1).min(self.msg.len())].to_vec(),
            // the last n octets of the container (final tag / MDC packet) once more behind it
            "duptail" => { let n = num(1).min(body.len()); let mut b2 = body.to_vec(); b2.extend_from_slice(&body[body.len() - n..]); reframe(&self.msg, (self.bs, self.be), &b2) }
            // n octets slipped in 16 octets before the end of the container
            "insert" => { let at = body.len().saturating_sub(16); let mut b2 = body[..at].to_vec(); b2.extend(Rng::new(self.seed ^ 0x1e5).bytes(num(1))); b2.extend_from_slice(&body[at..]); reframe(&self.msg, (self.bs, self.be), &b2) }
            _ => self.msg.clone(),
        }
    }
    /// (what was observed, does the property hold on it)
    fn run(&self, what: &str, mode: u8, consumer: u8, reqs: &[usize]) -> (String, bool) {
        let tampered = what != "intact";
        let imp = msg_read(&self.changed(what), mode, consumer, reqs);
        let truth = &self.data;
        let pred = if !tampered { imp == format!("OK {}", hx(truth)) }
            else if let Some(rel) = imp.strip_prefix("ERR ") {
                // default SEIPDv1 mode: nothing released; SEIPDv2: a prefix of the payload; streaming SEIPDv1: an error, whatever came before
                if self.v2 { let rel = if rel == "-" { vec![] } else { unhx(rel) }; rel.len() <= truth.len() && truth[..rel.len()] == rel[..] }
                else if mode == 0 { rel == "-" || rel.is_empty() } else { true }
            } else { false };
        let shown = if imp.len() > 60 { format!("{}.. ({} hex digits; payload {} octets)", &imp[..60], imp.len() - 3.min(imp.len()), truth.len()) } else { imp.clone() };
        (format!("{what} {shown}"), pred)
    }
}

fn key_len(sym: u8) -> usize { match sym { 1 | 3 | 4 | 7 | 11 => 16, 2 | 8 | 12 => 24, _ => 32 } }
fn blk_len(sym: u8) -> usize { match sym { 7..=13 => 16, _ => 8 } }

struct Ctx { out: Out, rng: Rng }

impl Ctx {
    fn sched(&mut self, chunk: usize) -> (Vec<usize>, u8, Vec<usize>) {
        let src = match self.rng.below(5) {
            0 => vec![], 1 => vec![1], 2 => vec![self.rng.range(1, 3 * chunk as u64 + 40) as usize],
            3 => vec![chunk + 15, 1, 2], _ => vec![self.rng.range(1, 7) as usize, 2 * (chunk + 16) - 1],
        };
        let consumer = self.rng.below(3) as u8;
        let reqs = match self.rng.below(6) {
            0 => vec![], 1 => vec![1], 2 => vec![7], 3 => vec![chunk - 1], 4 => vec![chunk + 1], _ => vec![*self.rng.pick(&[8191usize, 8192, 8193, chunk])],
        };
        (src, consumer, reqs)
    }

    /// decrypt `ct` (possibly tampered); `truth`: the plaintext of the untampered stream
    fn v2_case(&mut self, p: &V2, ct: &[u8], truth: &[u8], tampered: bool, cls: &str) {
        let chunk = 1usize << (p.cs as usize + 6);
        let (src, consumer, reqs) = self.sched(chunk);
        let imp = v2_decrypt(p, ct, &src, consumer, &reqs);
        let pred = if !tampered {
            imp == format!("OK {}", hx(truth))
        } else if let Some(rel) = imp.strip_prefix("ERR ") {
            // released octets are a prefix of the true plaintext
            let rel = unhx(rel);
            rel.len() <= truth.len() && truth[..rel.len()] == rel[..]
        } else {
            false // clean end (or panic) on a modified stream
        };
        let mut a = p.args(); a.insert(0, "v2dec".into());
        let mut rp = a.clone(); rp.push(hx(ct)); rp.push(nums(&src)); rp.push(consumer.to_string()); rp.push(nums(&reqs)); rp.push(hx(truth)); rp.push((tampered as u8).to_string());
        // the model runs the machine of C03_v2_stream_machine_is_spec under this consumer's request sizes, and the specification
        let mut args = p.args(); args.push(hx(ct)); args.push(consumer.to_string()); args.push(nums(&reqs));
        self.out.case("v2dec", &args, &rp, &imp, Some(pred), cls);
    }

    fn v1_case(&mut self, sym: u8, key: &[u8], mode: u8, max: usize, ct: &[u8], truth: &[u8], tampered: bool, cls: &str) {
        let (src, consumer, reqs) = self.sched(64);
        let imp = v1_decrypt(sym, key, mode, max, ct, &src, consumer, &reqs);
        let over = mode == 0 && ct.len() > blk_len(sym) + 2 + max;
        let pred = if !tampered && !over {
            imp == format!("OK {}", hx(truth))
        } else if mode == 0 {
            imp == "ERR -"          // default mode: not one octet before the failure
        } else {
            imp.starts_with("ERR ") // streaming: never a clean end
        };
        // the model runs the state machine of the theorems under this consumer's own request sizes (and the one-shot specification)
        let args = vec![sym.to_string(), hx(key), mode.to_string(), max.to_string(), hx(ct), consumer.to_string(), nums(&reqs)];
        let mut rp = vec!["v1dec".to_string()]; rp.extend(args[..5].iter().cloned());
        rp.push(nums(&src)); rp.push(consumer.to_string()); rp.push(nums(&reqs)); rp.push(hx(truth)); rp.push((tampered as u8).to_string());
        self.out.case("v1dec", &args, &rp, &imp, Some(pred), cls);
    }

    fn v1_suite(&mut self, sym: u8, n: usize, exhaustive_flips: bool, cls: &str) {
        let key = self.rng.bytes(key_len(sym));
        let plain = self.rng.bytes(n);
        let seed = self.rng.next();
        let (src, _, _) = self.sched(64);
        let ct = match v1_encrypt(sym, &key, &plain, seed, &src) {
            Ok(c) => c,
            Err(e) => { self.out.case("", &[], &["v1enc".into(), sym.to_string()], &format!("ERR {e}"), Some(false), cls); return; }
        };
        let big = 1usize << 30;
        for mode in [0u8, 1] {
            self.v1_case(sym, &key, mode, big, &ct, &plain, false, &format!("{cls}-m{mode}"));
        }
        // the configured limit of the default mode: exactly at, one below
        let after_prefix = ct.len() - blk_len(sym) - 2;
        self.v1_case(sym, &key, 0, after_prefix, &ct, &plain, false, &format!("{cls}-limit-eq"));
        if after_prefix > 0 { self.v1_case(sym, &key, 0, after_prefix - 1, &ct, &plain, false, &format!("{cls}-limit-below")); }
        let nbits = ct.len() * 8;
        let flips: Vec<usize> = if exhaustive_flips { (0..nbits).collect() } else { (0..32).map(|_| self.rng.below(nbits as u64) as usize).collect() };
        for b in flips {
            let mut v = ct.clone(); v[b / 8] ^= 1 << (b % 8);
            let mode = (b % 2) as u8;
            self.v1_case(sym, &key, mode, big, &v, &plain, true, &format!("{cls}-bitflip-m{mode}"));
            // the same with the configured limit exactly at / one above the stream's size
            if b % 3 == 0 {
                let body = v.len() - blk_len(sym) - 2;
                self.v1_case(sym, &key, 0, body, &v, &plain, true, &format!("{cls}-bitflip-limit-eq"));
                self.v1_case(sym, &key, 0, body + 1, &v, &plain, true, &format!("{cls}-bitflip-limit-above"));
            }
        }
        let step = if ct.len() <= 300 { 1 } else { ct.len() / 61 + 1 };
        let mut cut = 0;
        while cut < ct.len() {
            let mode = (cut % 2) as u8;
            self.v1_case(sym, &key, mode, big, &ct[..cut], &plain, true, &format!("{cls}-truncate-m{mode}"));
            cut += if cut < 60 || ct.len() - cut < 40 { 1 } else { step };
        }
        for extra in [1usize, 21, 22, 23] {
            let mut v = ct.clone(); v.extend(self.rng.bytes(extra));
            self.v1_case(sym, &key, (extra % 2) as u8, big, &v, &plain, true, &format!("{cls}-append"));
        }
        // wrong key
        let mut k2 = key.clone(); k2[0] ^= 0x10;
        self.v1_case(sym, &k2, 0, big, &ct, &plain, true, &format!("{cls}-wrongkey"));
    }


    /// one message-level case, described compactly so that it can be rebuilt: (v2, sym, n, seed) give the message, `what` the change
    fn msg_case(&mut self, m: &MsgCase, what: &str, mode: u8, cls: &str) {
        let (_, consumer, reqs) = self.sched(64);
        let (imp, pred) = m.run(what, mode, consumer, &reqs);
        let rp = vec!["msgdec".to_string(), (m.v2 as u8).to_string(), m.sym.to_string(), m.n.to_string(), m.seed.to_string(), what.to_string(), mode.to_string(), consumer.to_string(), nums(&reqs)];
        self.out.case("", &[], &rp, &imp, Some(pred), cls);
    }

    /// the whole path a user takes: Message::from_bytes, decrypt, read to the end; changes inside the encrypted container
    fn msg_suite(&mut self, v2: bool, sym: u8, n: usize, dense: bool, cls: &str) {
        let seed = self.rng.next();
        let Some(m) = MsgCase::new(v2, sym, n, seed) else { self.out.case("", &[], &["msgbuild".into(), n.to_string()], "ERR build / no SEIPD packet", Some(false), cls); return; };
        let modes: &[u8] = if v2 { &[0] } else { &[0, 1] };
        for &mode in modes { self.msg_case(&m, "intact", mode, &format!("{cls}-intact-m{mode}")); }
        // bit flips inside the container's body (behind its version octet)
        let blen = m.be - m.bs;
        let mut octets: Vec<usize> = if blen <= 140 { (1..blen).collect() } else { let mut v: Vec<usize> = (1..25).collect(); v.extend(blen - 48..blen); for _ in 0..(if dense { 200 } else { 24 }) { v.push(1 + self.rng.below(blen as u64 - 1) as usize); } v };
        octets.sort(); octets.dedup();
        for o in octets {
            let bits: Vec<u8> = if blen <= 140 || dense { (0..8).collect() } else { vec![(o % 8) as u8, ((o + 3) % 8) as u8] };
            for bit in bits { for &mode in modes { self.msg_case(&m, &format!("flip:{o}:{bit}"), mode, &format!("{cls}-bitflip-m{mode}")); } }
        }
        // truncation and extension of the container (its length field follows)
        let mut cuts: Vec<usize> = vec![1, 2, blen / 2, blen.saturating_sub(23), blen.saturating_sub(22), blen.saturating_sub(21), blen.saturating_sub(16), blen.saturating_sub(2), blen - 1];
        cuts.retain(|c| *c >= 1 && *c < blen); cuts.sort(); cuts.dedup();
        for c in cuts { for &mode in modes { self.msg_case(&m, &format!("trunc:{c}"), mode, &format!("{cls}-truncate-m{mode}")); } }
        for extra in [1usize, 16, 22, 23] { for &mode in modes { self.msg_case(&m, &format!("append:{extra}"), mode, &format!("{cls}-append-m{mode}")); } }
        for what in ["duptail:16", "duptail:22", "insert:1", "insert:16"] { for &mode in modes { self.msg_case(&m, what, mode, &format!("{cls}-tail-m{mode}")); } }
        // the message simply cut off inside the container
        for c in [m.bs + 1, m.bs + blen / 2, m.be - 1] { if c < m.msg.len() { for &mode in modes { self.msg_case(&m, &format!("cut:{c}"), mode, &format!("{cls}-cut-m{mode}")); } } }
    }

    fn v2_suite(&mut self, p: &V2, n: usize, exhaustive_flips: bool, cls: &str) {
        let plain = self.rng.bytes(n);
        let (src, _, _) = self.sched(64);
        let ct = match v2_encrypt(p, &plain, &src) {
            Ok(c) => c,
            Err(e) => { let mut a = p.args(); a.push(hx(&plain)); self.out.case("v2enc", &a, &[], &format!("ERR {e}"), Some(false), cls); return; }
        };
        let mut a = p.args(); a.push(hx(&plain));
        self.out.case("v2enc", &a, &[], &hx(&ct), None, cls);
        self.v2_case(p, &ct, &plain, false, cls);
        let chunk = 1usize << (p.cs as usize + 6);
        let ec = chunk + 16;
        // bit flips
        let nbits = ct.len() * 8;
        if exhaustive_flips {
            for b in 0..nbits { let mut v = ct.clone(); v[b / 8] ^= 1 << (b % 8); self.v2_case(p, &v, &plain, true, &format!("{cls}-bitflip")); }
        } else {
            for _ in 0..24 { let b = self.rng.below(nbits as u64) as usize; let mut v = ct.clone(); v[b / 8] ^= 1 << (b % 8); self.v2_case(p, &v, &plain, true, &format!("{cls}-bitflip")); }
        }
        // truncation at every offset (sampled for long streams), appended octets
        let step = if ct.len() <= 400 { 1 } else { ct.len() / 97 + 1 };
        let mut cut = 0;
        while cut < ct.len() { self.v2_case(p, &ct[..cut], &plain, true, &format!("{cls}-truncate")); cut += if cut % ec < 3 || cut % ec > ec - 3 || ct.len() - cut < 40 { 1 } else { step }; }
        for extra in [1usize, 15, 16, 17, ec] { let mut v = ct.clone(); v.extend(self.rng.bytes(extra)); self.v2_case(p, &v, &plain, true, &format!("{cls}-append")); }
        // octets slipped in between the last chunk and the final tag (1, 15, 16, 17 random octets; a copy of the final
        // tag, i.e. the final tag duplicated; a copy of the last chunk's own tag)
        if ct.len() >= 16 {
            let (body0, tag0) = ct.split_at(ct.len() - 16);
            for ins in [1usize, 15, 16, 17] { let mut v = body0.to_vec(); v.extend(self.rng.bytes(ins)); v.extend_from_slice(tag0); self.v2_case(p, &v, &plain, true, &format!("{cls}-insert-before-final-tag")); }
            { let mut v = ct.clone(); v.extend_from_slice(tag0); self.v2_case(p, &v, &plain, true, &format!("{cls}-final-tag-duplicated")); }
            if body0.len() >= 16 { let mut v = body0.to_vec(); v.extend_from_slice(&body0[body0.len() - 16..]); v.extend_from_slice(tag0); self.v2_case(p, &v, &plain, true, &format!("{cls}-chunk-tag-duplicated")); }
        }
        // chunk level: drop, duplicate, swap, final tag only, drop final tag
        let body = &ct[..ct.len() - 16];
        let tag = &ct[ct.len() - 16..];
        let pieces: Vec<&[u8]> = body.chunks(ec).collect();
        if pieces.len() >= 1 && pieces.len() <= 5 {
            for i in 0..pieces.len() {
                let mut v: Vec<u8> = Vec::new();
                for (j, pc) in pieces.iter().enumerate() { if j != i { v.extend_from_slice(pc); } }
                v.extend_from_slice(tag);
                self.v2_case(p, &v, &plain, true, &format!("{cls}-dropchunk"));
                let mut v: Vec<u8> = Vec::new();
                for (j, pc) in pieces.iter().enumerate() { v.extend_from_slice(pc); if j == i { v.extend_from_slice(pc); } }
                v.extend_from_slice(tag);
                self.v2_case(p, &v, &plain, true, &format!("{cls}-dupchunk"));
                for k in i + 1..pieces.len() {
                    let mut order: Vec<usize> = (0..pieces.len()).collect(); order.swap(i, k);
                    let mut v: Vec<u8> = Vec::new();
                    for &j in &order { v.extend_from_slice(pieces[j]); }
                    v.extend_from_slice(tag);
                    if v != ct { self.v2_case(p, &v, &plain, true, &format!("{cls}-swapchunk")); }
                }
            }
        }
        self.v2_case(p, tag, &plain, plain.is_empty() == false, &format!("{cls}-tagonly"));
        // altered header fields: cipher, mode, chunk size, salt, session key
        for (name, q) in [
            ("sym", V2 { sym: if p.sym == 9 { 7 } else { p.sym + 1 }, sk: { let mut k = p.sk.clone(); k.resize(32, 0); k }, ..p.clone() }),
            ("aead", V2 { aead: p.aead % 3 + 1, ..p.clone() }),
            ("cs+", V2 { cs: p.cs + 1, ..p.clone() }),
            ("cs-", V2 { cs: if p.cs == 0 { 2 } else { p.cs - 1 }, ..p.clone() }),
            ("salt", V2 { salt: { let mut s = p.salt; s[self.rng.below(32) as usize] ^= 1 << self.rng.below(8); s }, ..p.clone() }),
            ("key", V2 { sk: { let mut k = p.sk.clone(); let i = self.rng.below(k.len() as u64) as usize; k[i] ^= 0x80; k }, ..p.clone() }),
        ] {
            let mut q = q;
            q.sk.truncate(match q.sym { 7 => 16, 8 => 24, _ => 32 });
            while q.sk.len() < match q.sym { 7 => 16, 8 => 24, _ => 32 } { q.sk.push(0x11); }
            self.v2_case(&q, &ct, &plain, true, &format!("{cls}-hdr-{name}"));
        }
    }
}

fn main() {
    quiet_panics();
    let cli = cli();
    let mut cx = Ctx { out: Out::new(), rng: Rng::new(cli.seed) };
    if cli.mode == "replay" {
        let a = &cli.rest;
        if a[0] == "v2dec" {
            let p = V2 { sym: a[1].parse().unwrap(), aead: a[2].parse().unwrap(), cs: a[3].parse().unwrap(), sk: unhx(&a[4]), salt: unhx(&a[5]).try_into().unwrap() };
            let pn = |s: &str| -> Vec<usize> { if s == "_" { vec![] } else { s.split(',').map(|x| x.parse().unwrap()).collect() } };
            let ct = unhx(&a[6]);
            let imp = v2_decrypt(&p, &ct, &pn(&a[7]), a[8].parse().unwrap(), &pn(&a[9]));
            let truth = unhx(&a[10]);
            let tampered = a[11] == "1";
            let pred = if !tampered { imp == format!("OK {}", hx(&truth)) } else if let Some(rel) = imp.strip_prefix("ERR ") { let rel = unhx(rel); rel.len() <= truth.len() && truth[..rel.len()] == rel[..] } else { false };
            let mut args = p.args(); args.push(hx(&ct)); args.push(a[8].clone()); args.push(a[9].clone());
            cx.out.case("v2dec", &args, a, &imp, Some(pred), "replay");
        }
        if a[0] == "msgdec" && a.len() >= 9 {
            let pn = |s: &str| -> Vec<usize> { if s == "_" { vec![] } else { s.split(',').map(|x| x.parse().unwrap()).collect() } };
            if let Some(m) = MsgCase::new(a[1] == "1", a[2].parse().unwrap(), a[3].parse().unwrap(), a[4].parse().unwrap()) {
                let (imp, pred) = m.run(&a[5], a[6].parse().unwrap(), a[7].parse().unwrap(), &pn(&a[8]));
                cx.out.case("", &[], a, &imp, Some(pred), "replay");
            }
        }
        if a[0] == "v1dec" {
            let pn = |s: &str| -> Vec<usize> { if s == "_" { vec![] } else { s.split(',').map(|x| x.parse().unwrap()).collect() } };
            let (sym, key, mode, max, ct) = (a[1].parse::<u8>().unwrap(), unhx(&a[2]), a[3].parse::<u8>().unwrap(), a[4].parse::<usize>().unwrap(), unhx(&a[5]));
            let imp = v1_decrypt(sym, &key, mode, max, &ct, &pn(&a[6]), a[7].parse().unwrap(), &pn(&a[8]));
            let truth = unhx(&a[9]);
            let tampered = a[10] == "1";
            let over = mode == 0 && ct.len() > blk_len(sym) + 2 + max;
            let pred = if !tampered && !over { imp == format!("OK {}", hx(&truth)) } else if mode == 0 { imp == "ERR -" } else { imp.starts_with("ERR ") };
            let mut margs = a[1..6].to_vec(); margs.push(a[7].clone()); margs.push(a[8].clone());
            cx.out.case("v1dec", &margs, a, &imp, Some(pred), "replay");
        }
        cx.out.finish();
        return;
    }
    let thorough = cli.tier == "thorough";
    // SEIPD v1: every cipher; lengths around 0, the 22-octet MDC hold-back and the 8192 buffer
    let mut firstv1 = true;
    for sym in [1u8, 2, 3, 4, 7, 8, 9, 10, 11, 12, 13] {
        let lens: Vec<usize> = if thorough { vec![0, 1, 7, 8, 15, 16, 17, 21, 22, 23, 100, 8191 - 18, 8192 - 18, 8192, 8193, 8170 + 8192, 16384 + 5, 30000] }
                               else { vec![0, 1, 16, 22, 23, 100, 8192 - 22 - 18, 8192, 8170 + 8192 + 1] };
        for n in lens {
            let exhaustive = (firstv1 || thorough) && n <= 23;
            cx.v1_suite(sym, n, exhaustive, "v1");
        }
        firstv1 = false;
    }
    // the path a user takes: Message::from_bytes -> decrypt -> read to the end, both SEIPDv1 read modes.
    // literal packet = header (2 | 3 | 6) + 6 + n octets; the stream decryptor works in 8192-octet buffers and holds 22 back
    {
        let lens: Vec<usize> = if thorough { let mut v = vec![0usize, 1, 13, 50, 180, 190, 8000]; v.extend(8150..8200); v.extend(16320..16336); v.extend(16360..16376); v.extend([24500, 24510, 24576 - 12, 40000]); v }
                               else { vec![0, 13, 50, 8159, 8160, 8161, 8162, 8163, 8183, 8184, 16327, 16328, 16329, 16372] };
        for (i, n) in lens.iter().enumerate() {
            let sym = [9u8, 7, 8, 2, 13][i % 5];
            cx.msg_suite(false, sym, *n, thorough && i % 7 == 0, "msg-v1");
        }
        let lens2: Vec<usize> = if thorough { vec![0, 1, 49, 50, 51, 64, 100, 113, 114, 115, 128, 1000, 8161] } else { vec![0, 50, 51, 114, 1000] };
        for (i, n) in lens2.iter().enumerate() { cx.msg_suite(true, [9u8, 7, 8][i % 3], *n, false, "msg-v2"); }
    }
    // every cipher x mode pair, small chunk sizes, lengths around 0,1,2,3 chunk boundaries
    let css: &[u8] = if thorough { &[0, 1, 2, 3, 4, 6] } else { &[0, 1] };
    let mut first = true;
    for &cs in css {
        let chunk = 1usize << (cs as usize + 6);
        for sym in [7u8, 8, 9] {
            for aead in [1u8, 2, 3] {
                let mut lens = vec![0usize, 1, chunk - 1, chunk, chunk + 1, 2 * chunk - 1, 2 * chunk, 2 * chunk + 1, 3 * chunk, 3 * chunk + 5];
                if !thorough { lens = vec![0, 1, chunk - 1, chunk, chunk + 1, 2 * chunk, 2 * chunk + 1, 3 * chunk + 5]; }
                for n in lens {
                    let p = V2 { sym, aead, cs, sk: cx.rng.bytes(match sym { 7 => 16, 8 => 24, _ => 32 }), salt: cx.rng.bytes(32).try_into().unwrap() };
                    // exhaustive single-bit flips for the small messages of the first configuration of each chunk size
                    let exhaustive = (first || thorough) && n <= chunk + 1 && chunk <= 128;
                    cx.v2_suite(&p, n, exhaustive, "v2");
                }
                first = false;
            }
        }
    }
    // larger chunk sizes: plain round trips and a few tamperings
    let big: &[u8] = if thorough { &[7, 8, 10, 12, 14, 16] } else { &[6, 10] };
    for &cs in big {
        let chunk = 1usize << (cs as usize + 6);
        let p = V2 { sym: 9, aead: 2, cs, sk: cx.rng.bytes(32), salt: cx.rng.bytes(32).try_into().unwrap() };
        for n in [chunk - 1, chunk + 1, 2 * chunk] {
            if n > 300_000 && !thorough { continue; }
            let plain = cx.rng.bytes(n);
            if let Ok(ct) = v2_encrypt(&p, &plain, &[]) {
                cx.v2_case(&p, &ct, &plain, false, "v2-large");
                let mut v = ct.clone(); let i = cx.rng.below(v.len() as u64) as usize; v[i] ^= 4;
                cx.v2_case(&p, &v, &plain, true, "v2-large-bitflip");
                cx.v2_case(&p, &ct[..ct.len() - 1], &plain, true, "v2-large-truncate");
            }
        }
    }
    // ---- SEIPD v2 header octets at the message level, every value: version, cipher, mode, chunk size (the library's default
    //      4 KiB and the largest, 4 MiB): the fields are bound only through HKDF info and the associated data, so the parse
    //      must be one-to-one
    {
        use pgp::composed::{Message, MessageBuilder};
        use pgp::types::{Password, StringToKey};
        for (csn, cs) in [(6u8, ChunkSize::C4KiB), (16, ChunkSize::C4MiB), (0, ChunkSize::C64B)] {
            let payload = cx.rng.bytes(100);
            let pw = Password::from("pw");
            let built = guarded(|| { let mut b = MessageBuilder::from_bytes("", payload.clone()).seipd_v2(Rng::new(50 + csn as u64), SymmetricKeyAlgorithm::AES128, AeadAlgorithm::Ocb, cs);
                b.encrypt_with_password(Rng::new(51), StringToKey::new_iterated(Rng::new(52), pgp::crypto::hash::HashAlgorithm::Sha256, 10), &pw).ok()?; b.to_vec(Rng::new(53)).ok() }).ok().flatten();
            let Some(msg) = built else { cx.out.case("", &[], &["v2-header".into(), csn.to_string()], "not constructible", Some(false), "v2-header-unavailable"); continue; };
            // the SEIPD packet is the last packet: find its body offset
            let mut pos = 0usize; let mut body_at = None;
            while pos + 2 <= msg.len() { let tag = msg[pos] & 0x3f; let (hl, bl) = match msg[pos + 1] { x @ 0..=191 => (2usize, x as usize), x @ 192..=223 => (3, ((x as usize - 192) << 8) + msg[pos + 2] as usize + 192), 255 => (6, u32::from_be_bytes([msg[pos + 2], msg[pos + 3], msg[pos + 4], msg[pos + 5]]) as usize), _ => break }; if tag == 18 { body_at = Some(pos + hl); break; } pos += hl + bl; }
            let Some(at) = body_at else { cx.out.case("", &[], &["v2-header".into(), csn.to_string()], "no SEIPD packet with a fixed length", Some(false), "v2-header-unavailable"); continue; };
            let read = |m: &[u8]| -> String { guarded(|| -> Result<Vec<u8>, String> { let m = Message::from_bytes(m).map_err(|e| e.to_string())?; let mut d = m.decrypt_with_password(&pw).map_err(|e| e.to_string())?; let mut o = Vec::new(); d.read_to_end(&mut o).map_err(|e| e.to_string())?; Ok(o) }).map(|r| match r { Ok(o) => format!("OK {}", hx(&o)), Err(_) => "ERR".into() }).unwrap_or_else(|p| p) };
            let base = read(&msg);
            cx.out.case("", &[], &["v2-header".into(), csn.to_string(), "untouched".into()], if base == format!("OK {}", hx(&payload)) { "reads back" } else { "DOES NOT READ BACK" }, Some(base == format!("OK {}", hx(&payload))), &format!("v2-header-cs{csn}-untouched"));
            for (fname, off) in [("version", 0usize), ("cipher", 1), ("mode", 2), ("chunk-size", 3)] {
                for v in 0..=255u8 {
                    if v == msg[at + off] { continue; }
                    if !thorough && fname != "chunk-size" && v % 5 != 0 && v > 24 { continue; }
                    let mut m2 = msg.clone(); m2[at + off] = v;
                    let r = read(&m2);
                    cx.out.case("", &[], &["v2-header".into(), csn.to_string(), fname.into(), v.to_string(), hx(&m2)], if r.starts_with("OK") { "ENDS CLEANLY" } else if r == "ERR" { "error" } else { &r }, Some(r == "ERR"), &format!("v2-header-cs{csn}-{fname}"));
                }
            }
        }
    }

    // ---- packet 20 (GnuPG / LibrePGP OCB encrypted data), read when the caller opts in.  The library has no producer for it:
    //      containers are built here from the primitive (AeadAlgorithm::encrypt_in_place) and tied to the model's encryptor;
    //      chunk-size octets 0 (64 octets), 2 and 16 (GnuPG's default, 4 MiB); every bit of every header field, and the usual
    //      stream tamperings; decrypted through Message::decrypt_the_ring with the session key in hand
    {
        use pgp::bytes::BytesMut;
        use pgp::composed::{DecryptionOptions, Message, PlainSessionKey, TheRing};
        let seal = |aead: AeadAlgorithm, sym: SymmetricKeyAlgorithm, key: &[u8], nonce: &[u8], ad: &[u8], data: &[u8]| -> Option<Vec<u8>> { let mut b = BytesMut::from(data); aead.encrypt_in_place(&sym, key, nonce, ad, &mut b).ok()?; Some(b.to_vec()) };
        let lit = |m: &[u8]| -> Vec<u8> { let mut b = vec![b'b', 0, 0, 0, 0, 0]; b.extend_from_slice(m); let mut p = vec![0xCB]; let n = b.len(); if n < 192 { p.push(n as u8); } else if n < 8384 { p.push(((n - 192) >> 8) as u8 + 192); p.push(((n - 192) & 0xff) as u8); } else { p.push(255); p.extend((n as u32).to_be_bytes()); } p.extend(b); p };
        let frame20 = |body: &[u8]| -> Vec<u8> { let mut p = vec![0xD4]; let n = body.len(); if n < 192 { p.push(n as u8); } else if n < 8384 { p.push(((n - 192) >> 8) as u8 + 192); p.push(((n - 192) & 0xff) as u8); } else { p.push(255); p.extend((n as u32).to_be_bytes()); } p.extend_from_slice(body); p };
        let decrypt = |container: &[u8], key: &[u8], consumer: u8, reqs: &[usize]| -> String {
            let r = guarded(|| -> Result<(Vec<u8>, Result<(), String>), String> {
                let m = Message::from_bytes(container).map_err(|e| e.to_string())?;
                let ring = TheRing { session_keys: vec![PlainSessionKey::V5 { key: key.to_vec().into() }], decrypt_options: DecryptionOptions::new().enable_gnupg_aead(), ..Default::default() };
                let (d, _) = m.decrypt_the_ring(ring, true).map_err(|e| e.to_string())?;
                Ok(match consumer { 0 => consume_to_end(d), _ => consume_read(d, reqs) })
            });
            match r { Ok(Ok((o, Ok(())))) => format!("OK {}", hx(&o)), Ok(Ok((o, Err(_)))) => format!("ERR {}", hx(&o)), Ok(Err(_)) => "ERR -".into(), Err(p) => p }
        };
        // (the library reads packet 20 with OCB only; the other mode octets are covered as tamperings)
        let cfgs: Vec<(u8, u8, u8)> = if thorough { vec![(7, 2, 0), (9, 2, 0), (8, 2, 1), (7, 2, 2), (8, 2, 16), (7, 2, 16), (9, 2, 16)] } else { vec![(7, 2, 0), (9, 2, 0), (7, 2, 16), (7, 2, 6)] };
        for (symo, aeado, cs) in cfgs {
            let sym = sym_of(symo); let aead = match aeado { 1 => AeadAlgorithm::Eax, 2 => AeadAlgorithm::Ocb, _ => AeadAlgorithm::Gcm };
            let key = cx.rng.bytes(key_len(symo)); let iv = cx.rng.bytes(aead.nonce_size());
            let chunk = 1usize << (cs as usize + 6);
            let lens: Vec<usize> = if chunk <= 256 { vec![0, 1, chunk - 9, chunk - 8, chunk - 7, 2 * chunk - 8, 2 * chunk, 3 * chunk + 5] } else { vec![0, 25, 300] };
            for (li, n) in lens.into_iter().enumerate() {
                let payload_v = cx.rng.bytes(n); let payload = &payload_v[..];
                let inner = lit(payload);
                // chunks, then the final tag
                let mut ct = Vec::new(); let mut idx = 0u64; let mut ok = true;
                let nonce_of = |i: u64| -> Vec<u8> { let mut v = iv.clone(); let l = v.len(); for (j, b) in i.to_be_bytes().iter().enumerate() { v[l - 8 + j] ^= b; } v };
                for piece in inner.chunks(chunk) {
                    let mut ad = vec![0xD4, 1, symo, aeado, cs]; ad.extend(idx.to_be_bytes());
                    match seal(aead, sym, &key, &nonce_of(idx), &ad, piece) { Some(c) => ct.extend(c), None => { ok = false; } }
                    idx += 1;
                }
                let mut ad = vec![0xD4, 1, symo, aeado, cs]; ad.extend(idx.to_be_bytes()); ad.extend((inner.len() as u64).to_be_bytes());
                match seal(aead, sym, &key, &nonce_of(idx), &ad, &[]) { Some(c) => ct.extend(c), None => { ok = false; } }
                if !ok { cx.out.case("", &[], &["gnupg".into(), symo.to_string(), aeado.to_string(), cs.to_string()], "primitive refused", Some(false), "gnupg-unavailable"); continue; }
                // the harness's encryptor = the model's
                cx.out.case("genc", &[symo.to_string(), aeado.to_string(), cs.to_string(), hx(&key), hx(&iv), hx(&inner)], &[], &hx(&ct), None, "gnupg-framer-tie");
                let container = |ver: u8, s: u8, a: u8, c: u8, ivv: &[u8], ctt: &[u8]| -> Vec<u8> { let mut b = vec![ver, s, a, c]; b.extend_from_slice(ivv); b.extend_from_slice(ctt); frame20(&b) };
                let mut run = |cx: &mut Ctx, ver: u8, s: u8, a: u8, c: u8, ivv: &[u8], ctt: &[u8], tampered: bool, cls: &str| {
                    let (_, consumer, reqs) = cx.sched(chunk.min(4096));
                    let cont = container(ver, s, a, c, ivv, ctt);
                    let raw = decrypt(&cont, &key, consumer, &reqs);
                    // (the message layer hands out the literal's payload; the model the decrypted packet stream)
                    // a modified container never ends cleanly; whatever it released before the error is a prefix of the truth
                    let pred = if !tampered { raw == format!("OK {}", hx(payload)) } else if let Some(rel) = raw.strip_prefix("ERR ") { let rel = unhx(rel); rel.len() <= payload.len() && payload[..rel.len()] == rel[..] } else { false };
                    let imp = if let Some(o) = raw.strip_prefix("OK ") { format!("OK {}", hx(&lit(&unhx(o)))) } else if raw.starts_with("ERR") { "ERR".to_string() } else { raw };
                    // the model is asked when cipher and mode are the honest ones (the oracle answers for those)
                    let op = if s == symo && a == aeado { "gdec" } else { "" };
                    cx.out.case(op, &[ver.to_string(), s.to_string(), a.to_string(), c.to_string(), hx(&key), hx(ivv), hx(ctt), consumer.to_string(), nums(&reqs)],
                        &["gnupg".into(), hx(&cont[..cont.len().min(3000)]), hx(&key), consumer.to_string(), nums(&reqs)], &imp, Some(pred), cls);
                };
                run(&mut cx, 1, symo, aeado, cs, &iv, &ct, false, &format!("gnupg-cs{cs}-untouched"));
                // every bit of every header field
                if li < 3 || thorough {
                    for bit in 0..8u8 {
                        run(&mut cx, 1 ^ (1 << bit), symo, aeado, cs, &iv, &ct, true, &format!("gnupg-cs{cs}-version-bit"));
                        run(&mut cx, 1, symo ^ (1 << bit), aeado, cs, &iv, &ct, true, &format!("gnupg-cs{cs}-cipher-bit"));
                        run(&mut cx, 1, symo, aeado ^ (1 << bit), cs, &iv, &ct, true, &format!("gnupg-cs{cs}-mode-bit"));
                        run(&mut cx, 1, symo, aeado, cs ^ (1 << bit), &iv, &ct, true, &format!("gnupg-cs{cs}-chunk-size-bit"));
                    }
                    for o in 0..iv.len() { for bit in [0u8, 7] { let mut v = iv.clone(); v[o] ^= 1 << bit; run(&mut cx, 1, symo, aeado, cs, &v, &ct, true, &format!("gnupg-cs{cs}-iv-bit")); } }
                }
                // the stream: bit flips, truncation, a chunk dropped / doubled / swapped, the final tag dropped
                for _ in 0..6 { let mut v = ct.clone(); let i = cx.rng.below(v.len() as u64) as usize; v[i] ^= 1 << cx.rng.below(8); run(&mut cx, 1, symo, aeado, cs, &iv, &v, true, &format!("gnupg-cs{cs}-bitflip")); }
                for cut in [1usize, 16, 17] { if ct.len() > cut { run(&mut cx, 1, symo, aeado, cs, &iv, &ct[..ct.len() - cut], true, &format!("gnupg-cs{cs}-truncate")); } }
                let ec = chunk + 16;
                if ct.len() >= 2 * ec + 16 {
                    let mut v = ct.clone(); v.drain(..ec); run(&mut cx, 1, symo, aeado, cs, &iv, &v, true, &format!("gnupg-cs{cs}-chunk-dropped"));
                    let mut v = ct[..ec].to_vec(); v.extend_from_slice(&ct); run(&mut cx, 1, symo, aeado, cs, &iv, &v, true, &format!("gnupg-cs{cs}-chunk-doubled"));
                    let mut v = ct.clone(); let (a, b) = v.split_at_mut(ec); a.swap_with_slice(&mut b[..ec]); run(&mut cx, 1, symo, aeado, cs, &iv, &v, true, &format!("gnupg-cs{cs}-chunks-swapped"));
                }
            }
        }
    }
    cx.out.finish();
}
