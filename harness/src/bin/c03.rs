//! C03: ciphertext integrity -- a modified encrypted stream never decrypts cleanly.
use std::io::Read;

use pgp::crypto::aead::{AeadAlgorithm, ChunkSize, StreamDecryptor as AeadDecryptor};
use pgp::crypto::sym::SymmetricKeyAlgorithm;
use vh::*;

fn sym_of(n: u8) -> SymmetricKeyAlgorithm { SymmetricKeyAlgorithm::from(n) }
fn aead_of(n: u8) -> AeadAlgorithm { AeadAlgorithm::from(n) }
fn cs_of(n: u8) -> Option<ChunkSize> { ChunkSize::try_from(n).ok() }

#[derive(Clone)]
struct V2 { sym: u8, aead: u8, cs: u8, sk: Vec<u8>, salt: [u8; 32] }

impl V2 {
    fn args(&self) -> Vec<String> {
        vec![self.sym.to_string(), self.aead.to_string(), self.cs.to_string(), hx(&self.sk), hx(&self.salt)]
    }
}

fn v2_encrypt(p: &V2, plain: &[u8], src: &[usize]) -> Result<Vec<u8>, String> {
    guarded(|| -> Result<Vec<u8>, String> {
        let cs = cs_of(p.cs).ok_or("chunk size")?;
        let mut e = pgp::verif_hooks::aead_stream_encryptor(sym_of(p.sym), aead_of(p.aead), cs, &p.sk, &p.salt,
            SchedReader::new(plain.to_vec(), src.to_vec())).map_err(|e| e.to_string())?;
        let mut out = Vec::new();
        e.read_to_end(&mut out).map_err(|e| e.to_string())?;
        Ok(out)
    }).and_then(|r| r)
}

/// library decryption of `ct`: "OK <plaintext>" on a clean end, "ERR <released>" otherwise
fn v2_decrypt(p: &V2, ct: &[u8], src: &[usize], consumer: u8, reqs: &[usize]) -> String {
    let r = guarded(|| -> Result<String, String> {
        let cs = cs_of(p.cs).ok_or("chunk size")?;
        let mut d = AeadDecryptor::new_rfc9580(sym_of(p.sym), aead_of(p.aead), cs, &p.salt, &p.sk,
            SchedBufReader::new(ct.to_vec(), src.to_vec())).map_err(|e| e.to_string())?;
        let (out, res) = match consumer {
            0 => consume_to_end(&mut d),
            1 => consume_read(&mut d, reqs),
            _ => consume_bufread(&mut d, reqs),
        };
        Ok(match res { Ok(()) => format!("OK {}", hx(&out)), Err(_) => format!("ERR {}", hx(&out)) })
    });
    match r { Ok(Ok(s)) => s, Ok(Err(_)) => "ERR -".into(), Err(p) => p }
}

// ------------------------------------------------------------------ SEIPD v1

fn v1_encrypt(sym: u8, key: &[u8], plain: &[u8], seed: u64, src: &[usize]) -> Result<Vec<u8>, String> {
    guarded(|| -> Result<Vec<u8>, String> {
        let mut e = sym_of(sym).stream_encryptor(Rng::new(seed), key, SchedReader::new(plain.to_vec(), src.to_vec())).map_err(|e| e.to_string())?;
        let mut out = Vec::new();
        e.read_to_end(&mut out).map_err(|e| e.to_string())?;
        Ok(out)
    }).and_then(|r| r)
}

/// mode: 0 = CheckFirst{max}, 1 = Streaming
fn v1_decrypt(sym: u8, key: &[u8], mode: u8, max: usize, ct: &[u8], src: &[usize], consumer: u8, reqs: &[usize]) -> String {
    use pgp::types::Seipdv1ReadMode;
    let r = guarded(|| -> Result<String, String> {
        let m = if mode == 0 { Seipdv1ReadMode::CheckFirst { max_message_size: max } } else { Seipdv1ReadMode::Streaming };
        let mut d = sym_of(sym).stream_decryptor_protected(m, key, SchedBufReader::new(ct.to_vec(), src.to_vec())).map_err(|e| e.to_string())?;
        let (out, res) = match consumer {
            0 => consume_to_end(&mut d),
            1 => consume_read(&mut d, reqs),
            _ => consume_bufread(&mut d, reqs),
        };
        Ok(match res { Ok(()) => format!("OK {}", hx(&out)), Err(_) => format!("ERR {}", hx(&out)) })
    });
    match r { Ok(Ok(s)) => s, Ok(Err(_)) => "ERR -".into(), Err(p) => p }
}

fn key_len(sym: u8) -> usize { match sym { 1 | 3 | 4 | 7 | 11 => 16, 2 | 8 | 12 => 24, _ => 32 } }
fn blk_len(sym: u8) -> usize { match sym { 7..=13 => 16, _ => 8 } }

struct Ctx { out: Out, rng: Rng }

impl Ctx {
    fn sched(&mut self, chunk: usize) -> (Vec<usize>, u8, Vec<usize>) {
        let src = match self.rng.below(5) {
            0 => vec![], 1 => vec![1], 2 => vec![self.rng.range(1, 3 * chunk as u64 + 40) as usize],
            3 => vec![chunk + 15, 1, 2], _ => vec![self.rng.range(1, 7) as usize, 2 * (chunk + 16) - 1],
        };
        let consumer = self.rng.below(3) as u8;
        let reqs = match self.rng.below(6) {
            0 => vec![], 1 => vec![1], 2 => vec![7], 3 => vec![chunk - 1], 4 => vec![chunk + 1], _ => vec![*self.rng.pick(&[8191usize, 8192, 8193, chunk])],
        };
        (src, consumer, reqs)
    }

    /// decrypt `ct` (possibly tampered); `truth`: the plaintext of the untampered stream
    fn v2_case(&mut self, p: &V2, ct: &[u8], truth: &[u8], tampered: bool, cls: &str) {
        let chunk = 1usize << (p.cs as usize + 6);
        let (src, consumer, reqs) = self.sched(chunk);
        let imp = v2_decrypt(p, ct, &src, consumer, &reqs);
        let pred = if !tampered {
            imp == format!("OK {}", hx(truth))
        } else if let Some(rel) = imp.strip_prefix("ERR ") {
            // released octets are a prefix of the true plaintext
            let rel = unhx(rel);
            rel.len() <= truth.len() && truth[..rel.len()] == rel[..]
        } else {
            false // clean end (or panic) on a modified stream
        };
        let mut a = p.args(); a.insert(0, "v2dec".into());
        let mut rp = a.clone(); rp.push(hx(ct)); rp.push(nums(&src)); rp.push(consumer.to_string()); rp.push(nums(&reqs)); rp.push(hx(truth)); rp.push((tampered as u8).to_string());
        let mut args = p.args(); args.push(hx(ct));
        self.out.case("v2dec", &args, &rp, &imp, Some(pred), cls);
    }

    fn v1_case(&mut self, sym: u8, key: &[u8], mode: u8, max: usize, ct: &[u8], truth: &[u8], tampered: bool, cls: &str) {
        let (src, consumer, reqs) = self.sched(64);
        let imp = v1_decrypt(sym, key, mode, max, ct, &src, consumer, &reqs);
        let over = mode == 0 && ct.len() > blk_len(sym) + 2 + max;
        let pred = if !tampered && !over {
            imp == format!("OK {}", hx(truth))
        } else if mode == 0 {
            imp == "ERR -"          // default mode: not one octet before the failure
        } else {
            imp.starts_with("ERR ") // streaming: never a clean end
        };
        let args = vec![sym.to_string(), hx(key), mode.to_string(), max.to_string(), hx(ct)];
        let mut rp = vec!["v1dec".to_string()]; rp.extend(args.clone());
        rp.push(nums(&src)); rp.push(consumer.to_string()); rp.push(nums(&reqs)); rp.push(hx(truth)); rp.push((tampered as u8).to_string());
        self.out.case("v1dec", &args, &rp, &imp, Some(pred), cls);
    }

    fn v1_suite(&mut self, sym: u8, n: usize, exhaustive_flips: bool, cls: &str) {
        let key = self.rng.bytes(key_len(sym));
        let plain = self.rng.bytes(n);
        let seed = self.rng.next();
        let (src, _, _) = self.sched(64);
        let ct = match v1_encrypt(sym, &key, &plain, seed, &src) {
            Ok(c) => c,
            Err(e) => { self.out.case("", &[], &["v1enc".into(), sym.to_string()], &format!("ERR {e}"), Some(false), cls); return; }
        };
        let big = 1usize << 30;
        for mode in [0u8, 1] {
            self.v1_case(sym, &key, mode, big, &ct, &plain, false, &format!("{cls}-m{mode}"));
        }
        // the configured limit of the default mode: exactly at, one below
        let after_prefix = ct.len() - blk_len(sym) - 2;
        self.v1_case(sym, &key, 0, after_prefix, &ct, &plain, false, &format!("{cls}-limit-eq"));
        if after_prefix > 0 { self.v1_case(sym, &key, 0, after_prefix - 1, &ct, &plain, false, &format!("{cls}-limit-below")); }
        let nbits = ct.len() * 8;
        let flips: Vec<usize> = if exhaustive_flips { (0..nbits).collect() } else { (0..32).map(|_| self.rng.below(nbits as u64) as usize).collect() };
        for b in flips {
            let mut v = ct.clone(); v[b / 8] ^= 1 << (b % 8);
            let mode = (b % 2) as u8;
            self.v1_case(sym, &key, mode, big, &v, &plain, true, &format!("{cls}-bitflip-m{mode}"));
            // the same with the configured limit exactly at / one above the stream's size
            if b % 3 == 0 {
                let body = v.len() - blk_len(sym) - 2;
                self.v1_case(sym, &key, 0, body, &v, &plain, true, &format!("{cls}-bitflip-limit-eq"));
                self.v1_case(sym, &key, 0, body + 1, &v, &plain, true, &format!("{cls}-bitflip-limit-above"));
            }
        }
        let step = if ct.len() <= 300 { 1 } else { ct.len() / 61 + 1 };
        let mut cut = 0;
        while cut < ct.len() {
            let mode = (cut % 2) as u8;
            self.v1_case(sym, &key, mode, big, &ct[..cut], &plain, true, &format!("{cls}-truncate-m{mode}"));
            cut += if cut < 60 || ct.len() - cut < 40 { 1 } else { step };
        }
        for extra in [1usize, 21, 22, 23] {
            let mut v = ct.clone(); v.extend(self.rng.bytes(extra));
            self.v1_case(sym, &key, (extra % 2) as u8, big, &v, &plain, true, &format!("{cls}-append"));
        }
        // wrong key
        let mut k2 = key.clone(); k2[0] ^= 0x10;
        self.v1_case(sym, &k2, 0, big, &ct, &plain, true, &format!("{cls}-wrongkey"));
    }

    fn v2_suite(&mut self, p: &V2, n: usize, exhaustive_flips: bool, cls: &str) {
        let plain = self.rng.bytes(n);
        let (src, _, _) = self.sched(64);
        let ct = match v2_encrypt(p, &plain, &src) {
            Ok(c) => c,
            Err(e) => { let mut a = p.args(); a.push(hx(&plain)); self.out.case("v2enc", &a, &[], &format!("ERR {e}"), Some(false), cls); return; }
        };
        let mut a = p.args(); a.push(hx(&plain));
        self.out.case("v2enc", &a, &[], &hx(&ct), None, cls);
        self.v2_case(p, &ct, &plain, false, cls);
        let chunk = 1usize << (p.cs as usize + 6);
        let ec = chunk + 16;
        // bit flips
        let nbits = ct.len() * 8;
        if exhaustive_flips {
            for b in 0..nbits { let mut v = ct.clone(); v[b / 8] ^= 1 << (b % 8); self.v2_case(p, &v, &plain, true, &format!("{cls}-bitflip")); }
        } else {
            for _ in 0..24 { let b = self.rng.below(nbits as u64) as usize; let mut v = ct.clone(); v[b / 8] ^= 1 << (b % 8); self.v2_case(p, &v, &plain, true, &format!("{cls}-bitflip")); }
        }
        // truncation at every offset (sampled for long streams), appended octets
        let step = if ct.len() <= 400 { 1 } else { ct.len() / 97 + 1 };
        let mut cut = 0;
        while cut < ct.len() { self.v2_case(p, &ct[..cut], &plain, true, &format!("{cls}-truncate")); cut += if cut % ec < 3 || cut % ec > ec - 3 || ct.len() - cut < 40 { 1 } else { step }; }
        for extra in [1usize, 15, 16, 17, ec] { let mut v = ct.clone(); v.extend(self.rng.bytes(extra)); self.v2_case(p, &v, &plain, true, &format!("{cls}-append")); }
        // chunk level: drop, duplicate, swap, final tag only, drop final tag
        let body = &ct[..ct.len() - 16];
        let tag = &ct[ct.len() - 16..];
        let pieces: Vec<&[u8]> = body.chunks(ec).collect();
        if pieces.len() >= 1 && pieces.len() <= 5 {
            for i in 0..pieces.len() {
                let mut v: Vec<u8> = Vec::new();
                for (j, pc) in pieces.iter().enumerate() { if j != i { v.extend_from_slice(pc); } }
                v.extend_from_slice(tag);
                self.v2_case(p, &v, &plain, true, &format!("{cls}-dropchunk"));
                let mut v: Vec<u8> = Vec::new();
                for (j, pc) in pieces.iter().enumerate() { v.extend_from_slice(pc); if j == i { v.extend_from_slice(pc); } }
                v.extend_from_slice(tag);
                self.v2_case(p, &v, &plain, true, &format!("{cls}-dupchunk"));
                for k in i + 1..pieces.len() {
                    let mut order: Vec<usize> = (0..pieces.len()).collect(); order.swap(i, k);
                    let mut v: Vec<u8> = Vec::new();
                    for &j in &order { v.extend_from_slice(pieces[j]); }
                    v.extend_from_slice(tag);
                    if v != ct { self.v2_case(p, &v, &plain, true, &format!("{cls}-swapchunk")); }
                }
            }
        }
        self.v2_case(p, tag, &plain, plain.is_empty() == false, &format!("{cls}-tagonly"));
        // altered header fields: cipher, mode, chunk size, salt, session key
        for (name, q) in [
            ("sym", V2 { sym: if p.sym == 9 { 7 } else { p.sym + 1 }, sk: { let mut k = p.sk.clone(); k.resize(32, 0); k }, ..p.clone() }),
            ("aead", V2 { aead: p.aead % 3 + 1, ..p.clone() }),
            ("cs+", V2 { cs: p.cs + 1, ..p.clone() }),
            ("cs-", V2 { cs: if p.cs == 0 { 2 } else { p.cs - 1 }, ..p.clone() }),
            ("salt", V2 { salt: { let mut s = p.salt; s[self.rng.below(32) as usize] ^= 1 << self.rng.below(8); s }, ..p.clone() }),
            ("key", V2 { sk: { let mut k = p.sk.clone(); let i = self.rng.below(k.len() as u64) as usize; k[i] ^= 0x80; k }, ..p.clone() }),
        ] {
            let mut q = q;
            q.sk.truncate(match q.sym { 7 => 16, 8 => 24, _ => 32 });
            while q.sk.len() < match q.sym { 7 => 16, 8 => 24, _ => 32 } { q.sk.push(0x11); }
            self.v2_case(&q, &ct, &plain, true, &format!("{cls}-hdr-{name}"));
        }
    }
}

fn main() {
    quiet_panics();
    let cli = cli();
    let mut cx = Ctx { out: Out::new(), rng: Rng::new(cli.seed) };
    if cli.mode == "replay" {
        let a = &cli.rest;
        if a[0] == "v2dec" {
            let p = V2 { sym: a[1].parse().unwrap(), aead: a[2].parse().unwrap(), cs: a[3].parse().unwrap(), sk: unhx(&a[4]), salt: unhx(&a[5]).try_into().unwrap() };
            let pn = |s: &str| -> Vec<usize> { if s == "_" { vec![] } else { s.split(',').map(|x| x.parse().unwrap()).collect() } };
            let ct = unhx(&a[6]);
            let imp = v2_decrypt(&p, &ct, &pn(&a[7]), a[8].parse().unwrap(), &pn(&a[9]));
            let truth = unhx(&a[10]);
            let tampered = a[11] == "1";
            let pred = if !tampered { imp == format!("OK {}", hx(&truth)) } else if let Some(rel) = imp.strip_prefix("ERR ") { let rel = unhx(rel); rel.len() <= truth.len() && truth[..rel.len()] == rel[..] } else { false };
            let mut args = p.args(); args.push(hx(&ct));
            cx.out.case("v2dec", &args, a, &imp, Some(pred), "replay");
        }
        if a[0] == "v1dec" {
            let pn = |s: &str| -> Vec<usize> { if s == "_" { vec![] } else { s.split(',').map(|x| x.parse().unwrap()).collect() } };
            let (sym, key, mode, max, ct) = (a[1].parse::<u8>().unwrap(), unhx(&a[2]), a[3].parse::<u8>().unwrap(), a[4].parse::<usize>().unwrap(), unhx(&a[5]));
            let imp = v1_decrypt(sym, &key, mode, max, &ct, &pn(&a[6]), a[7].parse().unwrap(), &pn(&a[8]));
            let truth = unhx(&a[9]);
            let tampered = a[10] == "1";
            let over = mode == 0 && ct.len() > blk_len(sym) + 2 + max;
            let pred = if !tampered && !over { imp == format!("OK {}", hx(&truth)) } else if mode == 0 { imp == "ERR -" } else { imp.starts_with("ERR ") };
            cx.out.case("v1dec", &a[1..6].to_vec(), a, &imp, Some(pred), "replay");
        }
        cx.out.finish();
        return;
    }
    let thorough = cli.tier == "thorough";
    // SEIPD v1: every cipher; lengths around 0, the 22-octet MDC hold-back and the 8192 buffer
    let mut firstv1 = true;
    for sym in [1u8, 2, 3, 4, 7, 8, 9, 10, 11, 12, 13] {
        let lens: Vec<usize> = if thorough { vec![0, 1, 7, 8, 15, 16, 17, 21, 22, 23, 100, 8191 - 18, 8192 - 18, 8192, 8193, 8170 + 8192, 16384 + 5, 30000] }
                               else { vec![0, 1, 16, 22, 23, 100, 8192 - 22 - 18, 8192, 8170 + 8192 + 1] };
        for n in lens {
            let exhaustive = (firstv1 || thorough) && n <= 23;
            cx.v1_suite(sym, n, exhaustive, "v1");
        }
        firstv1 = false;
    }
    // every cipher x mode pair, small chunk sizes, lengths around 0,1,2,3 chunk boundaries
    let css: &[u8] = if thorough { &[0, 1, 2, 3, 4, 6] } else { &[0, 1] };
    let mut first = true;
    for &cs in css {
        let chunk = 1usize << (cs as usize + 6);
        for sym in [7u8, 8, 9] {
            for aead in [1u8, 2, 3] {
                let mut lens = vec![0usize, 1, chunk - 1, chunk, chunk + 1, 2 * chunk - 1, 2 * chunk, 2 * chunk + 1, 3 * chunk, 3 * chunk + 5];
                if !thorough { lens = vec![0, 1, chunk - 1, chunk, chunk + 1, 2 * chunk, 2 * chunk + 1, 3 * chunk + 5]; }
                for n in lens {
                    let p = V2 { sym, aead, cs, sk: cx.rng.bytes(match sym { 7 => 16, 8 => 24, _ => 32 }), salt: cx.rng.bytes(32).try_into().unwrap() };
                    // exhaustive single-bit flips for the small messages of the first configuration of each chunk size
                    let exhaustive = (first || thorough) && n <= chunk + 1 && chunk <= 128;
                    cx.v2_suite(&p, n, exhaustive, "v2");
                }
                first = false;
            }
        }
    }
    // larger chunk sizes: plain round trips and a few tamperings
    let big: &[u8] = if thorough { &[7, 8, 10, 12, 14, 16] } else { &[6, 10] };
    for &cs in big {
        let chunk = 1usize << (cs as usize + 6);
        let p = V2 { sym: 9, aead: 2, cs, sk: cx.rng.bytes(32), salt: cx.rng.bytes(32).try_into().unwrap() };
        for n in [chunk - 1, chunk + 1, 2 * chunk] {
            if n > 300_000 && !thorough { continue; }
            let plain = cx.rng.bytes(n);
            if let Ok(ct) = v2_encrypt(&p, &plain, &[]) {
                cx.v2_case(&p, &ct, &plain, false, "v2-large");
                let mut v = ct.clone(); let i = cx.rng.below(v.len() as u64) as usize; v[i] ^= 4;
                cx.v2_case(&p, &v, &plain, true, "v2-large-bitflip");
                cx.v2_case(&p, &ct[..ct.len() - 1], &plain, true, "v2-large-truncate");
            }
        }
    }
    cx.out.finish();
}
