//! C09: streaming is transparent -- results independent of I/O fragmentation and faults.
use std::io::{BufReader, Read, Write};

use pgp::composed::{ArmorOptions, KeyType, Message, MessageBuilder, SignedPublicKey};
use pgp::crypto::aead::{AeadAlgorithm, ChunkSize};
use pgp::crypto::hash::HashAlgorithm;
use pgp::crypto::sym::SymmetricKeyAlgorithm;
use pgp::types::{CompressionAlgorithm, KeyVersion, Password, SigningKey, StringToKey};
use vh::*;

struct Ctx { out: Out, rng: Rng }

/// raw octets as a serialisable body for armor::write
struct Raw(Vec<u8>);
impl pgp::ser::Serialize for Raw {
    fn to_writer<W: Write>(&self, w: &mut W) -> pgp::errors::Result<()> { w.write_all(&self.0)?; Ok(()) }
    fn write_len(&self) -> usize { self.0.len() }
}

#[derive(Clone, Copy, Debug)]
struct Cfg { enc: u8, comp: bool, sign: bool, text: bool, armor: bool, pchunk: u32 }

fn build<W: Write>(cfg: Cfg, key: &pgp::composed::SignedSecretKey, src: impl Read, out: W) -> Result<(), String> {
    macro_rules! common { ($b:expr) => {{
        let b = &mut $b;
        b.partial_chunk_size(cfg.pchunk).map_err(|e| e.to_string())?;
        if cfg.comp { b.compression(CompressionAlgorithm::ZLIB); }
        if cfg.text { b.sign_text(); }
        if cfg.sign { b.sign(&key.primary_key, Password::empty(), key.primary_key.hash_alg()); }
    }}; }
    macro_rules! finish { ($b:expr) => {{
        if cfg.armor { $b.to_armored_writer(Rng::new(9), ArmorOptions::default(), out).map_err(|e| e.to_string()) } else { $b.to_writer(Rng::new(9), out).map_err(|e| e.to_string()) }
    }}; }
    let base = MessageBuilder::from_reader("", src);
    let s2k = || StringToKey::new_iterated(Rng::new(3), HashAlgorithm::Sha256, 10);
    match cfg.enc {
        0 => { let mut b = base; common!(b); finish!(b) }
        1 => { let mut b = base.seipd_v1(Rng::new(1), SymmetricKeyAlgorithm::AES128); common!(b); b.encrypt_with_password(s2k(), &"pw".into()).map_err(|e| e.to_string())?; finish!(b) }
        _ => { let mut b = base.seipd_v2(Rng::new(1), SymmetricKeyAlgorithm::AES128, AeadAlgorithm::Ocb, ChunkSize::C64B); common!(b); b.encrypt_with_password(Rng::new(2), s2k(), &"pw".into()).map_err(|e| e.to_string())?; finish!(b) }
    }
}

/// read a message from `src` with the consumer schedule; "OK <payload> sig=<0|1>" or "ERR after <n>"
fn read_msg<R: std::io::BufRead + std::fmt::Debug + Send>(cfg: Cfg, pk: &SignedPublicKey, src: R, consumer: u8, reqs: &[usize]) -> (Result<(Vec<u8>, bool), String>, usize) {
    let mut got = 0usize;
    let r = guarded(|| -> Result<(Vec<u8>, bool), String> {
        let m0 = if cfg.armor { Message::from_armor(src).map(|x| x.0).map_err(|e| e.to_string())? } else { Message::from_bytes(src).map_err(|e| e.to_string())? };
        let m1 = if cfg.enc != 0 { m0.decrypt_with_password(&"pw".into()).map_err(|e| e.to_string())? } else { m0 };
        let mut m2 = if m1.is_compressed() { m1.decompress().map_err(|e| e.to_string())? } else { m1 };
        let (out, res) = match consumer { 0 => consume_to_end(&mut m2), 1 => consume_read(&mut m2, reqs), 3 => consume_read_with_empty(&mut m2, reqs), _ => consume_bufread(BufReader::with_capacity(1 + reqs.first().copied().unwrap_or(7), &mut m2), reqs) };
        got = out.len();
        res?;
        let sig = if cfg.sign { m2.verify(pk).is_ok() } else { true };
        Ok((out, sig))
    });
    (r.and_then(|x| x), got)
}

fn main() {
    quiet_panics();
    let cli = cli();
    let mut cx = Ctx { out: Out::new(), rng: Rng::new(cli.seed) };
    if cli.mode == "replay" { cx.out.finish(); return; }
    let thorough = cli.tier == "thorough";
    let key = vh::keys::gen_key(KeyVersion::V4, KeyType::Ed25519Legacy, 901);
    let pk = SignedPublicKey::from(key.clone());

    // ---- 1. fill_buffer against the model: every composition of short inputs, with and without a fault
    for len in 0..=6usize {
        let data: Vec<u8> = (0..len as u8).map(|i| 0x41 + i).collect();
        for comp in all_compositions(len) {
            for need in [0usize, 1, 2, 3, len.saturating_sub(1), len, len + 1, len + 3] {
                for fault in std::iter::once(None).chain((0..=comp.len()).map(Some)) {
                    let mut r = SchedReader::new(data.clone(), comp.clone()).with_fault(fault);
                    let mut buf = vec![0u8; need];
                    let res = guarded(|| pgp::verif_hooks::util_fill_buffer(&mut r, &mut buf, None));
                    let imp = match res { Ok(Ok(n)) => format!("OK {}", hx(&buf[..n])), Ok(Err(_)) => "ERR".into(), Err(p) => p };
                    // the model's event list: the chunks as the schedule cuts them, the fault at its call index
                    let mut evs: Vec<String> = Vec::new(); let mut pos = 0usize;
                    for (i, c) in comp.iter().enumerate() { if fault == Some(i) { evs.push("f".into()); } evs.push(format!("c:{}", hx(&data[pos..pos + c]))); pos += c; }
                    if fault == Some(comp.len()) { evs.push("f".into()); }
                    cx.out.case("fill", &[if evs.is_empty() { "_".into() } else { evs.join(",") }, need.to_string()], &["fill".into(), hx(&data), nums(&comp), need.to_string(), format!("{fault:?}")], &imp, None, if fault.is_some() { "fill-buffer-fault" } else { "fill-buffer" });
                }
            }
        }
    }

    // ---- 1b. armor::read_from_buf (header / footer / cleartext-header reassembly) against the model's loop:
    //          a one-line parser over every cutting of short streams; parsers deciding 0, 1, 2 octets late; limits
    for stream in ["", "\n", "a\n", "ab\nc", "ab\ncd", "abc", "!a\n", "a!\nb", "\n\n", "a\n\nb", "ab\ncde", "abcd\ne", "abcde\n", "a\nbcdef"] {
        let data = stream.as_bytes().to_vec();
        let len = data.len();
        for lookahead in 0..3usize {
            let whole = if len == 0 { None } else { guarded(|| pgp::verif_hooks::armor_read_from_buf_line(&[data.clone()], len + 1, lookahead)).ok() };
            for comp in all_compositions(len) {
                for limit in [len + 1, 3] {
                    let mut pieces: Vec<Vec<u8>> = Vec::new(); let mut pos = 0usize;
                    for c in &comp { pieces.push(data[pos..pos + c].to_vec()); pos += c; }
                    let r = guarded(|| pgp::verif_hooks::armor_read_from_buf_line(&pieces, limit, lookahead));
                    let imp = match &r { Ok((Some(l), rest)) => format!("OK {} {}", hx(l), hx(rest)), Ok((None, _)) => "ERR".into(), Err(p) => p.clone() };
                    // a parser that meets the contract (decides at most one octet late): every cutting gives what one piece gives
                    let pred = if lookahead < 2 && limit > len { Some(match (&r, &whole) { (Ok(a), Some(b)) => a == b, (Err(_), _) => false, (Ok((v, _)), None) => v.is_none() }) } else { r.as_ref().ok().map(|_| true) };
                    let pcs = if pieces.is_empty() { "_".to_string() } else { pieces.iter().map(|p| hx(p)).collect::<Vec<_>>().join(",") };
                    cx.out.case("rfb", &[lookahead.to_string(), limit.to_string(), pcs.clone()], &["rfb".into(), lookahead.to_string(), limit.to_string(), pcs], &imp, pred,
                        &format!("reassemble-late{lookahead}{}", if limit > len { "" } else { "-limit" }));
                }
            }
        }
    }
    // the contract itself on the real armor header parser: over every prefix of armor / cleartext openings, a decision
    // (value or refusal) never changes with more input and is never taken inside octets already seen undecided
    {
        let mut openings: Vec<Vec<u8>> = Vec::new();
        for typ in ["PGP MESSAGE", "PGP PUBLIC KEY BLOCK", "PGP SIGNED MESSAGE", "PGP MESSAGE, PART 2/3", "PGP NONSENSE"] {
            for hdrs in ["", "Version: x\n", "Hash: SHA256\nHash: SHA512\n", "Comment: a: b\nComment: \n", "NoColon\n", "Key:novalue\n", "A: b\r\n"] {
                for lead in ["", "junk\n", "--\n"] {
                    for blank in ["\n", "\r\n", " \t\n", "x\n"] {
                        openings.push(format!("{lead}-----BEGIN {typ}-----\n{hdrs}{blank}aGVsbG8=\n=abcd\n").into_bytes());
                    }
                }
            }
        }
        for o in openings.iter().step_by(if thorough { 1 } else { 3 }) {
            #[derive(PartialEq, Clone, Debug)] enum St { D(usize, String), M, B }
            let mut prev: Option<St> = None; let mut undecided_upto = 0usize; let mut ok = true; let mut why = String::new();
            for k in 1..=o.len() {
                let st = match guarded(|| match pgp::armor::header_parser(&o[..k]) {
                    Ok((rest, v)) => St::D(k - rest.len(), format!("{v:?}")), Err(nom::Err::Incomplete(_)) => St::M, Err(_) => St::B }) { Ok(s) => s, Err(p) => { ok = false; why = p; break; } };
                match (&prev, &st) {
                    (Some(St::D(n, v)), St::D(n2, v2)) => if n != n2 || v != v2 { ok = false; why = format!("decision changed at prefix {k}"); },
                    (Some(St::D(..)), _) => { ok = false; why = format!("decision withdrawn at prefix {k}"); }
                    (Some(St::B), St::B) => {}
                    (Some(St::B), _) => { ok = false; why = format!("refusal withdrawn at prefix {k}"); }
                    (_, St::D(n, _)) => if *n < undecided_upto { ok = false; why = format!("decided at {n} inside {undecided_upto} octets seen undecided"); },
                    _ => {}
                }
                if st == St::M { undecided_upto = k; }
                if !ok { break; }
                prev = Some(st);
            }
            cx.out.case("", &[], &["header-parser-contract".into(), hx(o)], if ok { "contract holds on every prefix" } else { &why }, Some(ok), "reassemble-header-parser-contract");
        }
    }

    // ---- 2. builder and reader under schedules
    let cfgs: Vec<Cfg> = {
        let mut v = Vec::new();
        for enc in 0..3u8 { for comp in [false, true] { for sign in [false, true] { for armor in [false, true] {
            if !thorough && ((enc as usize + comp as usize + sign as usize + armor as usize) % 2 == 1) { continue; }
            v.push(Cfg { enc, comp, sign, text: sign && enc == 1, armor, pchunk: 512 });
        } } } }
        v
    };
    for cfg in &cfgs {
        let cfg = *cfg;
        let cname = format!("enc{}{}{}{}", cfg.enc, if cfg.comp { "-comp" } else { "" }, if cfg.sign { if cfg.text { "-textsig" } else { "-sig" } } else { "" }, if cfg.armor { "-armor" } else { "" });
        let sizes: Vec<usize> = if thorough { vec![0, 1, 5, 63, 64, 65, 505, 506, 512, 1100, 9000] } else { vec![0, 5, 64, 506, 1100] };
        for n in sizes {
            let payload: Vec<u8> = if cfg.text { let mut v = Vec::new(); while v.len() < n { v.extend_from_slice(b"\r\n\nab\r\ncd\n\r\r\n\r\n"); } v.truncate(n); v } else { cx.rng.bytes(n) };
            // reference: everything at once
            let mut reference = Vec::new();
            if build(cfg, &key, &payload[..], &mut reference).is_err() { continue; }
            // signatures carry the wall-clock second: when a build does not equal the reference, take a fresh reference
            // (the second may have ticked in between) before calling it different
            let same_as_ref = |acc: &Vec<u8>, reference: &mut Vec<u8>| -> bool {
                if acc == reference { return true; }
                let mut fresh = Vec::new();
                if build(cfg, &key, &payload[..], &mut fresh).is_ok() && acc == &fresh { *reference = fresh; return true; }
                false
            };
            // 2a. source schedules x sink schedules: identical octets
            let mut scheds: Vec<(Vec<usize>, Vec<usize>)> = vec![(vec![1], vec![]), (vec![], vec![1]), (vec![1], vec![1]), (vec![2, 1, 7], vec![3, 1]), (vec![511, 1, 513], vec![64, 1, 200])];
            if n <= 5 { for c in all_compositions(n) { scheds.push((c, vec![])); } }
            for _ in 0..(if thorough { 6 } else { 2 }) { scheds.push((cx.rng.composition(n.max(1)), cx.rng.composition(40))); }
            for (src, sink) in &scheds {
                let mut w = SchedWriter::new(sink.clone(), None);
                let r = guarded(|| build(cfg, &key, SchedReader::new(payload.clone(), src.clone()), &mut w));
                let same = matches!(r, Ok(Ok(()))) && same_as_ref(&w.acc, &mut reference);
                cx.out.case("", &[], &["build-sched".into(), cname.clone(), n.to_string(), nums(src), nums(sink)], &if same { "same octets".to_string() } else { format!("DIFFERENT ({:?}, {} vs {} octets)", r.as_ref().map(|x| x.is_ok()), w.acc.len(), reference.len()) }, Some(same), &format!("build-schedule-{cname}"));
            }
            // 2b. reader: source schedule x consumer kind x request sizes: identical payload and verdict
            let reads: Vec<(Vec<usize>, u8, Vec<usize>)> = {
                let mut v = vec![(vec![], 0u8, vec![]), (vec![1], 0, vec![]), (vec![1], 1, vec![1]), (vec![3, 1], 1, vec![7]), (vec![], 1, vec![1]), (vec![64, 1], 2, vec![5, 1]), (vec![1], 2, vec![1]), (vec![513], 1, vec![4096]), (vec![], 3, vec![100]), (vec![1], 3, vec![1]), (vec![64, 1], 3, vec![4096, 3])];
                for _ in 0..(if thorough { 8 } else { 2 }) { v.push((cx.rng.composition(60), cx.rng.below(3) as u8, cx.rng.composition(30))); }
                v
            };
            for (src, consumer, reqs) in &reads {
                let (r, _) = read_msg(cfg, &pk, SchedBufReader::new(reference.clone(), src.clone()), *consumer, reqs);
                let ok = matches!(&r, Ok((o, s)) if *o == payload && *s);
                // the model's message reader (Msg/ReadEnd.v) under the same consumer: empty-buffer reads in between
                if *consumer == 3 && payload.len() <= 600 {
                    cx.out.case("msgread", &[hx(&payload), nums(reqs)], &["msgread".into(), cname.clone(), n.to_string(), nums(src), nums(reqs)], &match &r { Ok((o, _)) => format!("OK {}", hx(o)), Err(_) => "ERR".to_string() }, None, "message-read-with-empty-requests");
                }
                cx.out.case("", &[], &["read-sched".into(), cname.clone(), n.to_string(), nums(src), consumer.to_string(), nums(reqs)], &match &r { Ok((o, s)) => format!("payload-equal={} sig={}", *o == payload, *s as u8), Err(e) => format!("ERR {}", &e[..e.len().min(80)]) }, Some(ok), &format!("read-schedule-{cname}"));
            }
            // 2b'. armored messages as another implementation or a mail gateway leaves them: CR LF line endings; the reader under the
            //      same schedules (a piece may end between the CR and its LF)
            if cfg.armor {
                let crlf: Vec<u8> = { let mut v = Vec::with_capacity(reference.len() + 64); for b in &reference { if *b == b'\n' { v.push(b'\r'); } v.push(*b); } v };
                for (src, consumer, reqs) in &reads {
                    let (r, _) = read_msg(cfg, &pk, SchedBufReader::new(crlf.clone(), src.clone()), *consumer, reqs);
                    let ok = matches!(&r, Ok((o, s)) if *o == payload && *s);
                    cx.out.case("", &[], &["read-sched-crlf".into(), cname.clone(), n.to_string(), nums(src), consumer.to_string(), nums(reqs)], &match &r { Ok((o, s)) => format!("payload-equal={} sig={}", *o == payload, *s as u8), Err(e) => format!("ERR {}", &e[..e.len().min(80)]) }, Some(ok), &format!("read-schedule-crlf-{cname}"));
                }
                // every two-piece cut of a short armored message
                if crlf.len() <= 700 { for cut in 1..crlf.len() {
                    let (r, _) = read_msg(cfg, &pk, SchedBufReader::new(crlf.clone(), vec![cut, crlf.len()]), 0, &[]);
                    let ok = matches!(&r, Ok((o, s)) if *o == payload && *s);
                    if !ok || cut % 16 == 0 { cx.out.case("", &[], &["read-sched-crlf".into(), cname.clone(), n.to_string(), nums(&[cut, crlf.len()]), "0".into(), "_".into()], &match &r { Ok((o, s)) => format!("payload-equal={} sig={}", *o == payload, *s as u8), Err(e) => format!("ERR {}", &e[..e.len().min(80)]) }, Some(ok), &format!("read-two-piece-crlf-{cname}")); }
                } }
            }
            // 2c. faults: the source of the builder, the sink of the builder, the source of the reader, at every call
            let ncalls = 40usize.min(4 + n / 8);
            let kinds = [std::io::ErrorKind::Other, std::io::ErrorKind::Interrupted, std::io::ErrorKind::WouldBlock, std::io::ErrorKind::UnexpectedEof, std::io::ErrorKind::TimedOut];
            for k in 0..ncalls {
                // the kind of error must not matter: an implementation may retry an interrupted call (the injected fault
                // happens once, so a retry ends with the complete result), but it may not take it for the end of the data
                let kind = kinds[(k + n) % kinds.len()];
                // builder source fault
                let mut w = SchedWriter::new(vec![], None);
                let mut src = SchedReader::new(payload.clone(), vec![8]).with_fault(Some(k)).with_fault_kind(kind);
                let r = guarded(|| build(cfg, &key, &mut src, &mut w));
                let clean = matches!(r, Ok(Ok(())));
                // a fault must come back as an error value: a panic is not one
                let panicked = r.is_err();
                let ok = !panicked && if clean { same_as_ref(&w.acc, &mut reference) } else { src.faulted };
                cx.out.case("", &[], &["build-source-fault".into(), cname.clone(), n.to_string(), k.to_string(), format!("{kind:?}")], &format!("faulted={} clean={} octets={}{}", src.faulted, clean, w.acc.len(), if panicked { format!(" PANIC {}", r.as_ref().err().map(|p| p.chars().take(90).collect::<String>()).unwrap_or_default()) } else { String::new() }), Some(ok), if panicked { "fault-builder-source-panic" } else { "fault-builder-source" });
                // builder sink fault
                let mut w = SchedWriter::new(vec![97], Some(k));
                let r = guarded(|| build(cfg, &key, &payload[..], &mut w));
                let clean = matches!(r, Ok(Ok(())));
                let panicked = r.is_err();
                let ok = !panicked && if w.faulted { !clean } else { clean && same_as_ref(&w.acc, &mut reference) };
                cx.out.case("", &[], &["build-sink-fault".into(), cname.clone(), n.to_string(), k.to_string()], &format!("faulted={} clean={} octets={}{}", w.faulted, clean, w.acc.len(), if panicked { " PANIC" } else { "" }), Some(ok), if panicked { "fault-builder-sink-panic" } else { "fault-builder-sink" });
                // reader source fault
                let src = SchedBufReader::new(reference.clone(), vec![16]).with_fault(Some(k)).with_fault_kind(kind);
                let (r, got) = read_msg(cfg, &pk, src, (k % 3) as u8, &[13]);
                // an error, or the complete right answer (the fault was never reached); never a clean shorter or different payload
                let ok = match &r { Ok((o, s)) => *o == payload && *s, Err(e) => !e.starts_with("PANIC") };
                cx.out.case("", &[], &["read-source-fault".into(), cname.clone(), n.to_string(), k.to_string(), format!("{kind:?}")], &match &r { Ok((o, _)) => format!("clean end with {} of {} octets", o.len(), payload.len()), Err(_) => format!("error after {got} octets") }, Some(ok), "fault-reader-source");
            }
        }
    }

    // ---- 2d. fixed-length packets with multi-octet length fields (two-octet, five-octet, old-format) read through
    //          sources that cut inside the field
    {
        let cfg0 = Cfg { enc: 0, comp: false, sign: true, text: false, armor: false, pchunk: 512 };
        for n in [200usize, 300, 8383, 8384, 9000, 70000] {
            if !thorough && n == 70000 { continue; }
            let payload = cx.rng.bytes(n);
            let r = guarded(|| { let mut b = MessageBuilder::from_bytes("", payload.clone()); b.sign(&key.primary_key, Password::empty(), key.primary_key.hash_alg()); b.to_vec(Rng::new(9)).ok() });
            let Ok(Some(msg)) = r else { continue; };
            // the same message with old-format headers on every packet
            let old = { let mut o = Vec::new(); let mut d = &msg[..]; let mut ok = true;
                while d.len() >= 2 { let tag = d[0] & 0x3f; let (hl, bl) = match d[1] { x @ 0..=191 => (2, x as usize), x @ 192..=223 => (3, ((x as usize - 192) << 8) + d[2] as usize + 192), 255 => (6, u32::from_be_bytes([d[2], d[3], d[4], d[5]]) as usize), _ => { ok = false; break; } };
                    if tag > 15 || d.len() < hl + bl { ok = false; break; }
                    if bl < 256 { o.push(0x80 | (tag << 2)); o.push(bl as u8); } else if bl < 65536 { o.push(0x80 | (tag << 2) | 1); o.extend((bl as u16).to_be_bytes()); } else { o.push(0x80 | (tag << 2) | 2); o.extend((bl as u32).to_be_bytes()); }
                    o.extend(&d[hl..hl + bl]); d = &d[hl + bl..]; }
                if ok { Some(o) } else { None } };
            for (fname, m) in [("new", Some(msg.clone())), ("old", old)] {
                let Some(m) = m else { continue; };
                for src in [vec![1usize], vec![2], vec![3, 1], vec![1, 2, 1, 4], vec![5], vec![]] {
                    let (r, _) = read_msg(cfg0, &pk, SchedBufReader::new(m.clone(), src.clone()), 1, &[977]);
                    let ok = matches!(&r, Ok((o, s)) if *o == payload && *s);
                    cx.out.case("", &[], &["read-length-fields".into(), fname.into(), n.to_string(), nums(&src)], &match &r { Ok((o, s)) => format!("payload-equal={} ({} of {}) sig={}", *o == payload, o.len(), payload.len(), *s as u8), Err(e) => format!("ERR {}", &e[..e.len().min(80)]) }, Some(ok), &format!("read-schedule-length-fields-{fname}"));
                }
            }
        }
    }

    // ---- 2e. utf8 literals from a reader: the builder checks the text for bare LFs while streaming it; whether it accepts or
    //          refuses a text (and what it writes) does not depend on how the source cuts it: every composition of short texts
    {
        use pgp::packet::DataMode;
        let texts: Vec<Vec<u8>> = ["a\r\nb\r\n\nc", "\r\n\n", "a\rb\r\n\n", "a\r\nb\r\nc", "\n", "a\r\n", "\r\r\n\n", "ab\r\n\r\ncd", "\u{e9}", "a\u{20ac}b\r\n", "\u{1d11e}x", "\u{e9}\n\u{20ac}"].iter().map(|t| t.as_bytes().to_vec())
            .chain([b"a\xffb".to_vec(), b"\xc3".to_vec(), b"ab\xf0\x9f\x98".to_vec(), b"\xed\xa0\x80".to_vec(), b"\xf0\x9f\x98\x80\xf0\x9f".to_vec(), b"\xc3\r\n\xa9".to_vec()]).collect();
        for data in texts {
            let run = |sched: Vec<usize>| -> String { guarded(|| -> Result<Vec<u8>, String> {
                let mut b = MessageBuilder::from_reader("", SchedReader::new(data.clone(), sched));
                b.data_mode(DataMode::Utf8).map_err(|e| e.to_string())?;
                b.to_vec(Rng::new(9)).map_err(|e| e.to_string())
            }).map(|r| match r { Ok(o) => format!("OK {}", hx(&o)), Err(_) => "ERR".into() }).unwrap_or_else(|p| p) };
            let reference = run(vec![]);
            for comp in all_compositions(data.len()) {
                let r = run(comp.clone());
                let same = r == reference;
                // the model's readers (Io/Utf8Check.v under Io/CrLfCheck.v) over the same cutting: the verdict
                {
                    let mut pcs = Vec::new(); let mut at = 0usize;
                    for n in &comp { pcs.push(hx(&data[at..at + n])); at += n; }
                    cx.out.case("crlf", &[pcs.join(",")], &["utf8-literal-verdict".into(), hx(&data), nums(&comp)], if r.starts_with("OK") { "OK" } else if r == "ERR" { "ERR" } else { &r }, None, "utf8-literal-verdict");
                }
                if !same || comp.len() <= 2 || comp.len() == data.len() {
                    cx.out.case("", &[], &["utf8-literal-sched".into(), hx(&data), nums(&comp)], &format!("{} (one read: {})", &r[..r.len().min(40)], &reference[..reference.len().min(40)]), Some(same), "utf8-literal-schedule");
                }
            }
        }
    }

    // ---- 3. the stream encryptors driven by read() with any request sizes (not only read_to_end)
    for sym in [SymmetricKeyAlgorithm::AES128, SymmetricKeyAlgorithm::TripleDES] {
        for n in [0usize, 1, 15, 16, 17, 100] {
            let data = cx.rng.bytes(n); let keyb = cx.rng.bytes(sym.key_size());
            let reference = guarded(|| { let mut e = sym.stream_encryptor(Rng::new(4), &keyb, &data[..]).ok()?; let mut o = Vec::new(); e.read_to_end(&mut o).ok()?; Some(o) }).ok().flatten();
            let Some(reference) = reference else { continue; };
            for reqs in [vec![1usize], vec![7], vec![16], vec![3, 40], vec![1000], vec![2, 2], vec![17, 1]] {
                let r = guarded(|| { let e = sym.stream_encryptor(Rng::new(4), &keyb, SchedReader::new(data.clone(), vec![5, 1])).ok()?; let (o, res) = if reqs.len() == 2 && reqs[0] + reqs[1] != 43 { consume_read_with_empty(e, &reqs) } else { consume_read(e, &reqs) }; res.ok()?; Some(o) }).ok().flatten();
                let ok = r.as_ref() == Some(&reference);
                cx.out.case("", &[], &["cfb-encryptor".into(), u8::from(sym).to_string(), n.to_string(), nums(&reqs)], &format!("{} of {} octets", r.as_ref().map(|o| o.len()).unwrap_or(0), reference.len()), Some(ok), "stream-encryptor-cfb");
            }
        }
    }
    for n in [0usize, 1, 63, 64, 65, 200] {
        let data = cx.rng.bytes(n); let keyb = cx.rng.bytes(16); let salt = [7u8; 32];
        let reference = guarded(|| { let mut e = pgp::verif_hooks::aead_stream_encryptor(SymmetricKeyAlgorithm::AES128, AeadAlgorithm::Ocb, ChunkSize::C64B, &keyb, &salt, &data[..]).ok()?; let mut o = Vec::new(); e.read_to_end(&mut o).ok()?; Some(o) }).ok().flatten();
        let Some(reference) = reference else { continue; };
        for reqs in [vec![1usize], vec![7], vec![64], vec![3, 90], vec![1000], vec![2, 2], vec![65, 1]] {
            let r = guarded(|| { let e = pgp::verif_hooks::aead_stream_encryptor(SymmetricKeyAlgorithm::AES128, AeadAlgorithm::Ocb, ChunkSize::C64B, &keyb, &salt, SchedReader::new(data.clone(), vec![5, 1])).ok()?; let (o, res) = if reqs.len() == 2 && reqs[0] + reqs[1] != 93 { consume_read_with_empty(e, &reqs) } else { consume_read(e, &reqs) }; res.ok()?; Some(o) }).ok().flatten();
            let ok = r.as_ref() == Some(&reference);
            cx.out.case("", &[], &["aead-encryptor".into(), n.to_string(), nums(&reqs)], &format!("{} of {} octets", r.as_ref().map(|o| o.len()).unwrap_or(0), reference.len()), Some(ok), "stream-encryptor-aead");
        }
    }
    // ---- 3b. the line wrapper: every cut of short inputs into write() calls, with flushes in between
    {
        use generic_array::typenum::{U1, U2, U3, U4, U64};
        use pgp::line_writer::{LineBreak, LineWriter};
        macro_rules! lw { ($n:ty, $w:expr, $chunks:expr, $flush:expr) => {{
            let mut out = Vec::new();
            { let mut lw = LineWriter::<_, $n>::new(&mut out, LineBreak::Lf); for (i, c) in $chunks.iter().enumerate() { let _ = lw.write_all(c); if $flush && i % 2 == 0 { let _ = lw.flush(); } } let _ = lw.finish(); }
            out
        }}; }
        for len in 0..=7usize {
            let data: Vec<u8> = (0..len as u8).map(|i| b'a' + i).collect();
            for comp in all_compositions(len) {
                let chunks = split_by(&data, &comp);
                for flush in [false, true] {
                    for w in 1..=4usize {
                        let o = match w { 1 => lw!(U1, 1, chunks, flush), 2 => lw!(U2, 2, chunks, flush), 3 => lw!(U3, 3, chunks, flush), _ => lw!(U4, 4, chunks, flush) };
                        cx.out.case("lwrun", &[w.to_string(), hxs(&chunks)], &["linewriter".into(), w.to_string(), hx(&data), nums(&comp), (flush as u8).to_string()], &hx(&o), None, "line-writer-exhaustive");
                    }
                }
            }
        }
        for _ in 0..(if thorough { 300 } else { 40 }) {
            let n = cx.rng.range(0, 400) as usize; let data = cx.rng.bytes(n).iter().map(|b| b'A' + b % 26).collect::<Vec<u8>>();
            let comp = cx.rng.composition(n); let chunks = split_by(&data, &comp);
            let o = lw!(U64, 64, chunks, true);
            cx.out.case("lwrun", &["64".into(), hxs(&chunks)], &["linewriter".into(), "64".into(), hx(&data), nums(&comp), "1".into()], &hx(&o), None, "line-writer-64");
        }
    }

    // ---- 4. the armor writer on its own: sink faults at every call, including the final flush
    for n in [0usize, 1, 47, 48, 49, 200] {
        let data = cx.rng.bytes(n);
        let reference = { let mut o = Vec::new(); let _ = pgp::armor::write(&Raw(data.clone()), pgp::armor::BlockType::Message, &mut o, None, true); o };
        for k in 0..12usize {
            let mut w = SchedWriter::new(vec![64], Some(k));
            let r = guarded(|| pgp::armor::write(&Raw(data.clone()), pgp::armor::BlockType::Message, &mut w, None, true));
            let clean = matches!(r, Ok(Ok(())));
            let ok = if w.faulted { !clean } else { clean && w.acc == reference };
            cx.out.case("", &[], &["armor-sink-fault".into(), n.to_string(), k.to_string()], &format!("faulted={} clean={} octets={} of {}", w.faulted, clean, w.acc.len(), reference.len()), Some(ok), "fault-armor-sink");
        }
    }
    cx.out.finish();
}
