//! C08: secret-key locking -- the right password restores the key, nothing else does.
use pgp::composed::{KeyType, SignedSecretKey};
use pgp::crypto::aead::AeadAlgorithm;
use pgp::crypto::ecc_curve::ECCCurve;
use pgp::crypto::hash::HashAlgorithm;
use pgp::crypto::sym::SymmetricKeyAlgorithm;
use pgp::packet::{Packet, PacketParser, SecretKey};
use pgp::ser::Serialize;
use pgp::types::{EncryptedSecretParams, KeyDetails, KeyVersion, Password, S2kParams, SecretParams, StringToKey};
use vh::keys::{gen_key, gen_key_with_subkey};
use vh::*;

struct Ctx { out: Out, rng: Rng, thorough: bool }

fn sum16(d: &[u8]) -> [u8; 2] { let s: u32 = d.iter().map(|&b| b as u32).sum(); ((s & 0xffff) as u16).to_be_bytes() }

fn spec_of(s2k: &StringToKey) -> Option<String> {
    Some(match s2k {
        StringToKey::Simple { hash_alg } => format!("0:{}:-:0", u8::from(*hash_alg)),
        StringToKey::Salted { hash_alg, salt } => format!("1:{}:{}:0", u8::from(*hash_alg), hx(salt)),
        StringToKey::IteratedAndSalted { hash_alg, salt, count } => format!("3:{}:{}:{}", u8::from(*hash_alg), hx(salt), count),
        StringToKey::Argon2 { salt, t, p, m_enc } => format!("argon:{}:{}:{}:{}", t, p, m_enc, hx(salt)),
        _ => return None,
    })
}

/// primary and subkey secret packets behind one interface
trait LockKey: Clone + Serialize {
    const TAG: u8;
    fn pub_bytes(&self) -> Option<Vec<u8>>;
    fn ver(&self) -> KeyVersion;
    fn lock(&mut self, pw: &Password, p: S2kParams) -> pgp::errors::Result<()>;
    fn unlock_in_place(&mut self, pw: &Password) -> pgp::errors::Result<()>;
    fn sparams(&self) -> &SecretParams;
    fn with_params(&self, p: SecretParams) -> Option<Self>;
    fn parse(w: &[u8]) -> Option<Self>;
    fn packet(&self) -> Packet;
}
impl LockKey for SecretKey {
    const TAG: u8 = 5;
    fn pub_bytes(&self) -> Option<Vec<u8>> { self.public_key().to_bytes().ok() }
    fn ver(&self) -> KeyVersion { self.version() }
    fn lock(&mut self, pw: &Password, p: S2kParams) -> pgp::errors::Result<()> { self.set_password_with_s2k(pw, p) }
    fn unlock_in_place(&mut self, pw: &Password) -> pgp::errors::Result<()> { self.remove_password(pw) }
    fn sparams(&self) -> &SecretParams { self.secret_params() }
    fn with_params(&self, p: SecretParams) -> Option<Self> { SecretKey::new(self.public_key().clone(), p).ok() }
    fn parse(w: &[u8]) -> Option<Self> { match PacketParser::new(w).next() { Some(Ok(Packet::SecretKey(k))) => Some(k), _ => None } }
    fn packet(&self) -> Packet { Packet::from(self.clone()) }
}
impl LockKey for pgp::packet::SecretSubkey {
    const TAG: u8 = 7;
    fn pub_bytes(&self) -> Option<Vec<u8>> { self.public_key().to_bytes().ok() }
    fn ver(&self) -> KeyVersion { self.version() }
    fn lock(&mut self, pw: &Password, p: S2kParams) -> pgp::errors::Result<()> { self.set_password_with_s2k(pw, p) }
    fn unlock_in_place(&mut self, pw: &Password) -> pgp::errors::Result<()> { self.remove_password(pw) }
    fn sparams(&self) -> &SecretParams { self.secret_params() }
    fn with_params(&self, p: SecretParams) -> Option<Self> { pgp::packet::SecretSubkey::new(self.public_key().clone(), p).ok() }
    fn parse(w: &[u8]) -> Option<Self> { match PacketParser::new(w).next() { Some(Ok(Packet::SecretSubkey(k))) => Some(k), _ => None } }
    fn packet(&self) -> Packet { Packet::from(self.clone()) }
}

/// the pieces of an unlocked secret key packet: public fields, raw secret material
fn pieces<K: LockKey>(sk: &K) -> Option<(Vec<u8>, Vec<u8>)> {
    let body = sk.to_bytes().ok()?;
    let pubb = sk.pub_bytes()?;
    if body.len() < pubb.len() + 1 || body[..pubb.len()] != pubb[..] || body[pubb.len()] != 0 { return None; }
    let v6 = sk.ver() == KeyVersion::V6;
    let end = if v6 { body.len() } else { body.len().checked_sub(2)? };
    Some((pubb.clone(), body[pubb.len() + 1..end].to_vec()))
}


impl Ctx {
    /// lock (through the API, or by constructing the locked packet for the usages the library only
    /// reads), write, parse, compare with the model, unlock, wrong passwords, tampering
    fn lock_case<K: LockKey>(&mut self, kname: &str, sk: &K, vname: &str, params: &S2kParams, pw: &[u8]) {
        let cls = format!("{}{}-{vname}", if sk.ver() == KeyVersion::V6 { "v6" } else { "v4" }, if K::TAG == 7 { "sub" } else { "" });
        let Some((pubb, raw)) = pieces(sk) else { return; };
        let password = Password::from(pw);
        let tagn = K::TAG;
        // --- build the locked key
        let built: Result<Option<K>, String> = guarded(|| match params {
            S2kParams::Cfb { .. } | S2kParams::Aead { .. } => { let mut k = sk.clone(); k.lock(&password, params.clone()).ok().map(|_| k) }
            S2kParams::MalleableCfb { sym_alg, s2k, iv } => {
                let key = s2k.derive_key(pw, sym_alg.key_size()).ok()?;
                let mut d = raw.clone(); d.extend(sum16(&raw));
                sym_alg.encrypt_with_iv_regular(key.as_ref(), iv, &mut d).ok()?;
                sk.with_params(SecretParams::Encrypted(EncryptedSecretParams::new(d.into(), params.clone())))
            }
            S2kParams::LegacyCfb { sym_alg, iv } => {
                let key = StringToKey::Simple { hash_alg: HashAlgorithm::Md5 }.derive_key(pw, sym_alg.key_size()).ok()?;
                let mut d = raw.clone(); d.extend(sum16(&raw));
                sym_alg.encrypt_with_iv_regular(key.as_ref(), iv, &mut d).ok()?;
                sk.with_params(SecretParams::Encrypted(EncryptedSecretParams::new(d.into(), params.clone())))
            }
            S2kParams::Unprotected => None,
        });
        // the parameters as the model's decision functions see them: key version, usage, S2K type, weak hash
        let rules_args: Vec<String> = {
            let weak = |h: &HashAlgorithm| matches!(h, HashAlgorithm::Md5 | HashAlgorithm::Sha1 | HashAlgorithm::Ripemd160);
            let (var, s2k): (&str, Option<&StringToKey>) = match params { S2kParams::Cfb { s2k, .. } => ("cfb", Some(s2k)), S2kParams::MalleableCfb { s2k, .. } => ("malleable", Some(s2k)), S2kParams::Aead { s2k, .. } => ("aead", Some(s2k)), _ => ("legacy", None) };
            let (t, w) = match s2k { Some(StringToKey::Simple { hash_alg }) => ("0", weak(hash_alg)), Some(StringToKey::Salted { hash_alg, .. }) => ("1", weak(hash_alg)), Some(StringToKey::IteratedAndSalted { hash_alg, .. }) => ("3", weak(hash_alg)), Some(StringToKey::Argon2 { .. }) => ("4", false), Some(_) => ("9", false), None => ("0", true) };
            vec![(if sk.ver() == KeyVersion::V6 { 6 } else { 4 }).to_string(), var.into(), t.into(), (w as u8).to_string()]
        };
        // locking through the API: accepted exactly where the model says so
        // (AEAD modes are only implemented over AES: a refusal for another cipher says nothing about the parameter rules)
        let aes_or_cfb = match params { S2kParams::Aead { sym_alg, .. } => matches!(sym_alg, SymmetricKeyAlgorithm::AES128 | SymmetricKeyAlgorithm::AES192 | SymmetricKeyAlgorithm::AES256), _ => true };
        if matches!(params, S2kParams::Cfb { .. } | S2kParams::Aead { .. }) && aes_or_cfb {
            if let Ok(b) = &built { self.out.case("lockok", &rules_args, &["lockok".into(), kname.into(), vname.into()], if b.is_some() { "1" } else { "0" }, None, &format!("{cls}-lock-decision")); }
        }
        let locked = match built {
            Ok(Some(k)) => k,
            Ok(None) => { self.out.case("", &[], &["lock".into(), kname.into(), vname.into(), hx(pw)], "lock-refused", Some(true), &format!("{cls}-lock-refused")); return; }
            Err(p) => { self.out.case("", &[], &["lock".into(), kname.into(), vname.into(), hx(pw)], &p, Some(false), &format!("{cls}-lock-panic")); return; }
        };
        let Ok(w) = locked.packet().to_bytes() else { return; };
        let rp = vec!["locked".to_string(), hx(&w), hx(pw), hx(&sk.to_bytes().unwrap_or_default())];
        // --- from the wire
        let Some(k3) = K::parse(&w) else {
            // a protection the library does not accept from the wire (v6 with usage 255 / legacy) is outside the property
            let built_by_api = matches!(params, S2kParams::Cfb { .. } | S2kParams::Aead { .. });
            self.out.case("", &[], &rp, "locked key is not accepted from the wire", Some(!built_by_api), &format!("{cls}-not-accepted")); return;
        };
        let SecretParams::Encrypted(enc) = k3.sparams() else { self.out.case("", &[], &rp, "parsed as unprotected", Some(false), &format!("{cls}-unparseable")); return; };
        let ct = enc.data().to_vec();
        // --- the model computes the protected octets from the same inputs
        let (op, args): (&str, Vec<String>) = match params {
            S2kParams::Cfb { sym_alg, s2k, iv } | S2kParams::MalleableCfb { sym_alg, s2k, iv } => match spec_of(s2k) {
                Some(sp) => ("lock", vec![u8::from(params).to_string(), u8::from(*sym_alg).to_string(), sp, hx(pw), hx(iv), hx(&raw)]),
                None => ("", vec![]),
            },
            S2kParams::LegacyCfb { sym_alg, iv } => ("lock", vec!["0".into(), u8::from(*sym_alg).to_string(), "legacy".into(), hx(pw), hx(iv), hx(&raw)]),
            S2kParams::Aead { sym_alg, aead_mode, s2k, nonce } => match spec_of(s2k) {
                Some(sp) => ("lockaead", vec![tagn.to_string(), u8::from(sk.ver()).to_string(), u8::from(*sym_alg).to_string(), u8::from(*aead_mode).to_string(), sp, hx(pw), hx(nonce), hx(&pubb), hx(&raw)]),
                None => ("", vec![]),
            },
            S2kParams::Unprotected => ("", vec![]),
        };
        // usage octet on the wire = the variant's
        let usage_ok = w.len() > 2 + pubb.len() && { let hl = if w[1] < 192 { 2 } else if w[1] < 224 { 3 } else { 6 }; w[hl + pubb.len()] == u8::from(params) };
        self.out.case(op, &args, &rp, &hx(&ct), Some(usage_ok), &format!("{cls}-protected-octets"));
        // --- right password
        let orig = sk.to_bytes().unwrap_or_default();
        let r = guarded(|| { let mut k = k3.clone(); k.unlock_in_place(&password).map(|_| k.to_bytes().unwrap_or_default()) });
        // unlocking an honestly locked key with its password: accepted exactly where the model says so
        if let Ok(x) = &r { self.out.case("unlockok", &rules_args, &["unlockok".into(), kname.into(), vname.into(), hx(&w), hx(pw)], if x.is_ok() { "1" } else { "0" }, None, &format!("{cls}-unlock-decision")); }
        match r {
            Ok(Ok(b)) => self.out.case("", &[], &rp, if b == orig { "restored" } else { "DIFFERENT-MATERIAL" }, Some(b == orig), &format!("{cls}-unlock")),
            Ok(Err(e)) => self.out.case("", &[], &rp, &format!("unlock-failed: {}", &e.to_string()[..e.to_string().len().min(80)]), Some(false), &format!("{cls}-unlock-failed")),
            Err(p) => self.out.case("", &[], &rp, &p, Some(false), &format!("{cls}-unlock-panic")),
        }
        // --- wrong passwords
        let mut wrongs: Vec<Vec<u8>> = vec![{ let mut v = pw.to_vec(); if let Some(l) = v.last_mut() { *l ^= 1; } v }, [pw, b"x"].concat(), pw[..pw.len().saturating_sub(1)].to_vec(), pw.iter().map(|b| b ^ 0x20).collect(), vec![]];
        wrongs.retain(|x| x != pw);
        wrongs.dedup();
        for wp in wrongs {
            let r = guarded(|| { let mut k = k3.clone(); k.unlock_in_place(&Password::from(&wp[..])).is_ok() });
            let mut rp2 = rp.clone(); rp2[0] = "wrongpw".into(); rp2.push(hx(&wp));
            match r {
                Ok(acc) => self.out.case("", &[], &rp2, if acc { "ACCEPTED" } else { "rejected" }, Some(!acc), &format!("{cls}-wrong-password")),
                Err(p) => self.out.case("", &[], &rp2, &p, Some(false), &format!("{cls}-wrong-password-panic")),
            }
        }
        // --- tampering: bits of the packet
        let hl = if w[1] < 192 { 2 } else if w[1] < 224 { 3 } else { 6 };
        let nbits = (w.len() - hl) * 8;
        let mut bits: Vec<usize> = Vec::new();
        // key derivations that cost tens of milliseconds (Argon2, high iteration counts) get the sampled sweep in both tiers
        let costly = matches!(params, S2kParams::Aead { s2k: StringToKey::Argon2 { .. }, .. }) || matches!(params, S2kParams::Cfb { s2k: StringToKey::IteratedAndSalted { count, .. }, .. } | S2kParams::MalleableCfb { s2k: StringToKey::IteratedAndSalted { count, .. }, .. } | S2kParams::Aead { s2k: StringToKey::IteratedAndSalted { count, .. }, .. } if *count > 150);
        if self.thorough && nbits <= 6000 && !costly { bits.extend(0..nbits); } else {
            // every bit of the protection parameters and of the last 24 octets; a sample elsewhere
            let pstart = pubb.len() * 8; let pend = (w.len() - hl - ct.len()) * 8;
            let very_costly = matches!(params, S2kParams::Cfb { s2k: StringToKey::IteratedAndSalted { count, .. }, .. } | S2kParams::MalleableCfb { s2k: StringToKey::IteratedAndSalted { count, .. }, .. } if *count > 220);
            if very_costly { bits.extend((pstart..pend).step_by(5)); bits.extend((nbits.saturating_sub(24 * 8)..nbits).step_by(7)); }
            else { bits.extend(pstart..pend); bits.extend(nbits.saturating_sub(24 * 8)..nbits); }
            for _ in 0..(if very_costly { 30 } else if self.thorough { 600 } else { 120 }) { bits.push(self.rng.below(nbits as u64) as usize); }
            bits.sort(); bits.dedup();
        }
        let aead = matches!(params, S2kParams::Aead { .. });
        for bit in bits {
            let mut v = w.clone(); v[hl + bit / 8] ^= 1 << (bit % 8);
            let r = guarded(|| {
                let k = K::parse(&v)?;
                if !matches!(k.sparams(), SecretParams::Encrypted(_)) {
                    // the flip turned the key into an unprotected one: its material is whatever the octets say; not an unlock
                    return None;
                }
                let mut k2 = k.clone();
                k2.unlock_in_place(&password).ok()?;
                let (p2, r2) = pieces(&k2)?;
                Some((p2, r2))
            });
            let field = if bit / 8 < pubb.len() { "public" } else if bit / 8 < w.len() - hl - ct.len() { "params" } else { "protected" };
            let mut rp2 = rp.clone(); rp2[0] = "tamper".into(); rp2.push(bit.to_string());
            match r {
                Ok(None) => self.out.case("", &[], &rp2, "rejected", Some(true), &format!("{cls}-tamper-{field}-rejected")),
                Ok(Some((p2, r2))) => {
                    // unlocking succeeded: it must return the original material, and (AEAD) only under the original public fields
                    // never different material; never (AEAD) under changed public fields; a change to the
                    // protected octets themselves must not unlock at all. A flipped bit that the packet
                    // grammar does not bind to anything (v6 parameter count octet, public fields of a
                    // non-AEAD key) may leave the key unlockable to the same material.
                    let same = r2 == raw;
                    let ok = same && (!aead || p2 == pubb) && field != "protected";
                    // a flip inside the parameters or the protected octets that still unlocks to the same material is
                    // impossible for an honest scheme (theorem changed_blob_changes_material); report whatever happened
                    self.out.case("", &[], &rp2, &format!("UNLOCKED field={field} same-material={same} same-public={}", p2 == pubb), Some(ok), &format!("{cls}-tamper-{field}-unlocked"));
                }
                Err(p) => self.out.case("", &[], &rp2, &p, Some(false), &format!("{cls}-tamper-panic")),
            }
        }
    }
}

fn variants(rng: &mut Rng, thorough: bool) -> Vec<(String, S2kParams)> {
    let mut v = Vec::new();
    let salt8 = |r: &mut Rng| { let mut s = [0u8; 8]; s.copy_from_slice(&r.bytes(8)); s };
    let syms: Vec<(&str, SymmetricKeyAlgorithm)> = vec![("aes128", SymmetricKeyAlgorithm::AES128), ("aes192", SymmetricKeyAlgorithm::AES192), ("aes256", SymmetricKeyAlgorithm::AES256),
        ("3des", SymmetricKeyAlgorithm::TripleDES), ("cast5", SymmetricKeyAlgorithm::CAST5), ("blowfish", SymmetricKeyAlgorithm::Blowfish), ("twofish", SymmetricKeyAlgorithm::Twofish),
        ("camellia128", SymmetricKeyAlgorithm::Camellia128), ("camellia192", SymmetricKeyAlgorithm::Camellia192), ("camellia256", SymmetricKeyAlgorithm::Camellia256), ("idea", SymmetricKeyAlgorithm::IDEA)];
    for (sn, sym) in &syms {
        let bs = sym.block_size();
        // the costliest counts (3.4 MB and 65 MB hashed per unlock) only with a few ciphers: every flipped bit is one unlock
        let counts: Vec<u8> = if thorough { let mut c = vec![0, 1, 96]; if matches!(*sn, "aes128" | "3des" | "twofish") { c.push(200); } if *sn == "aes128" { c.push(255); } c } else { vec![0, 96] };
        let mut specs: Vec<(String, StringToKey)> = vec![
            ("salted-sha256".into(), StringToKey::Salted { hash_alg: HashAlgorithm::Sha256, salt: salt8(rng) }),
            ("simple-sha512".into(), StringToKey::Simple { hash_alg: HashAlgorithm::Sha512 }),
            ("salted-sha1".into(), StringToKey::Salted { hash_alg: HashAlgorithm::Sha1, salt: salt8(rng) }),
        ];
        for c in counts { specs.push((format!("iter{c}-sha256"), StringToKey::IteratedAndSalted { hash_alg: HashAlgorithm::Sha256, salt: salt8(rng), count: c })); }
        specs.push(("iter7-sha384".into(), StringToKey::IteratedAndSalted { hash_alg: HashAlgorithm::Sha384, salt: salt8(rng), count: 7 }));
        // digests shorter than the cipher key: the key is assembled from several hash contexts (RFC 9580 3.7.1.1), as GnuPG's
        // SHA-1 + AES-256 keys are
        specs.push(("iter96-sha224".into(), StringToKey::IteratedAndSalted { hash_alg: HashAlgorithm::Sha224, salt: salt8(rng), count: 96 }));
        specs.push(("iter40-sha1".into(), StringToKey::IteratedAndSalted { hash_alg: HashAlgorithm::Sha1, salt: salt8(rng), count: 40 }));
        specs.push(("iter7-md5".into(), StringToKey::IteratedAndSalted { hash_alg: HashAlgorithm::Md5, salt: salt8(rng), count: 7 }));
        specs.push(("iter7-ripemd160".into(), StringToKey::IteratedAndSalted { hash_alg: HashAlgorithm::Ripemd160, salt: salt8(rng), count: 7 }));
        specs.push(("salted-sha224".into(), StringToKey::Salted { hash_alg: HashAlgorithm::Sha224, salt: salt8(rng) }));
        for (kn, s2k) in specs {
            v.push((format!("cfb-{sn}-{kn}"), S2kParams::Cfb { sym_alg: *sym, s2k: s2k.clone(), iv: rng.bytes(bs).into() }));
            v.push((format!("malleable-{sn}-{kn}"), S2kParams::MalleableCfb { sym_alg: *sym, s2k, iv: rng.bytes(bs).into() }));
        }
        v.push((format!("legacy-{sn}"), S2kParams::LegacyCfb { sym_alg: *sym, iv: rng.bytes(bs).into() }));
    }
    for (an, aead) in [("eax", AeadAlgorithm::Eax), ("ocb", AeadAlgorithm::Ocb), ("gcm", AeadAlgorithm::Gcm)] {
        for (sn, sym) in [("aes128", SymmetricKeyAlgorithm::AES128), ("aes256", SymmetricKeyAlgorithm::AES256), ("camellia192", SymmetricKeyAlgorithm::Camellia192)] {
            let mut salt = [0u8; 16]; salt.copy_from_slice(&rng.bytes(16));
            let (t, p, m) = (1 + rng.below(3) as u8, 1 + rng.below(4) as u8, 10 + rng.below(3) as u8);
            v.push((format!("aead-{an}-{sn}-argon2"), S2kParams::Aead { sym_alg: sym, aead_mode: aead, s2k: StringToKey::Argon2 { salt, t, p, m_enc: m }, nonce: rng.bytes(aead.nonce_size()).into() }));
            v.push((format!("aead-{an}-{sn}-iter"), S2kParams::Aead { sym_alg: sym, aead_mode: aead, s2k: StringToKey::IteratedAndSalted { hash_alg: HashAlgorithm::Sha256, salt: salt8(rng), count: 40 }, nonce: rng.bytes(aead.nonce_size()).into() }));
            v.push((format!("aead-{an}-{sn}-salted"), S2kParams::Aead { sym_alg: sym, aead_mode: aead, s2k: StringToKey::Salted { hash_alg: HashAlgorithm::Sha256, salt: salt8(rng) }, nonce: rng.bytes(aead.nonce_size()).into() }));
            v.push((format!("aead-{an}-{sn}-simple"), S2kParams::Aead { sym_alg: sym, aead_mode: aead, s2k: StringToKey::Simple { hash_alg: HashAlgorithm::Sha256 }, nonce: rng.bytes(aead.nonce_size()).into() }));
        }
    }
    v
}

fn main() {
    quiet_panics();
    let cli = cli();
    let thorough = cli.tier == "thorough";
    let mut cx = Ctx { out: Out::new(), rng: Rng::new(cli.seed), thorough };
    if cli.mode == "replay" {
        // replay of a locked packet: unlock with the given password and compare with the original octets
        if cli.rest.len() >= 4 {
            let w = unhx(&cli.rest[1]); let pw = unhx(&cli.rest[2]); let orig = unhx(&cli.rest[3]);
            let mut v = w.clone();
            if cli.rest[0] == "tamper" && cli.rest.len() >= 5 { let bit: usize = cli.rest[4].parse().unwrap_or(0); let hl = if w[1] < 192 { 2 } else if w[1] < 224 { 3 } else { 6 }; v[hl + bit / 8] ^= 1 << (bit % 8); }
            let pwd = if cli.rest[0] == "wrongpw" && cli.rest.len() >= 5 { unhx(&cli.rest[4]) } else { pw.clone() };
            let r = guarded(|| { if v[0] & 0x3f == 7 { let mut k = <pgp::packet::SecretSubkey as LockKey>::parse(&v)?; k.remove_password(&Password::from(&pwd[..])).ok()?; k.to_bytes().ok() } else { let mut k = <SecretKey as LockKey>::parse(&v)?; k.remove_password(&Password::from(&pwd[..])).ok()?; k.to_bytes().ok() } });
            let (imp, pred) = match (&r, cli.rest[0].as_str()) {
                (Ok(Some(b)), "locked") => (if *b == orig { "restored".to_string() } else { "DIFFERENT-MATERIAL".to_string() }, *b == orig),
                (Ok(None), "locked") => ("unlock-failed".to_string(), false),
                (Ok(Some(b)), _) => (format!("UNLOCKED same-octets={}", *b == orig), false),
                (Ok(None), _) => ("rejected".to_string(), true),
                (Err(p), _) => (p.clone(), false),
            };
            cx.out.case("", &[], &cli.rest, &imp, Some(pred), "replay");
        }
        cx.out.finish();
        return;
    }
    let mut keys: Vec<(String, SecretKey)> = Vec::new();
    let kinds: Vec<(KeyVersion, KeyType, &str)> = vec![
        (KeyVersion::V4, KeyType::Ed25519Legacy, "v4-eddsa-legacy"), (KeyVersion::V6, KeyType::Ed25519, "v6-ed25519"),
        (KeyVersion::V4, KeyType::ECDSA(ECCCurve::P256), "v4-p256"), (KeyVersion::V6, KeyType::ECDSA(ECCCurve::P384), "v6-p384"),
        (KeyVersion::V4, KeyType::Rsa(2048), "v4-rsa2048"), (KeyVersion::V6, KeyType::Ed448, "v6-ed448"), (KeyVersion::V4, KeyType::Ed25519, "v4-ed25519"),
    ];
    for (v, kt, name) in kinds { if let Ok(k) = guarded(|| gen_key(v, kt.clone(), 800)) { keys.push((name.to_string(), k.primary_key.clone())); } }
    let _unused: Option<SignedSecretKey> = None;
    let _ = gen_key_with_subkey;
    let vars = variants(&mut cx.rng, thorough);
    let pws: Vec<Vec<u8>> = vec![b"correct horse".to_vec(), vec![], vec![0xff, 0xfe, 0x00, 0x80, b'a'], vec![b'z'; 300]];
    let per_key = if thorough { vars.len() } else { 40 };
    for (ki, (kname, sk)) in keys.iter().enumerate() {
        let off = cx.rng.below(vars.len() as u64) as usize;
        for i in 0..per_key {
            let (vn, params) = &vars[(off + i * 7) % vars.len()];
            let pw = &pws[(ki + i) % pws.len()];
            cx.lock_case(kname, sk, vn, params, pw);
        }
    }
    // secret subkeys (packet type 7): the AEAD protection binds the packet type
    {
        let subs: Vec<(String, pgp::packet::SecretSubkey)> = [(KeyVersion::V4, 810u64, "v4-sub-cv25519"), (KeyVersion::V6, 811, "v6-sub-x25519")].iter()
            .filter_map(|(v, s, n)| guarded(|| gen_key_with_subkey(*v, *s)).ok().and_then(|k| k.secret_subkeys.first().map(|x| (n.to_string(), x.key.clone())))).collect();
        let n = if thorough { vars.len() } else { 30 };
        for (ki, (kname, sub)) in subs.iter().enumerate() {
            let off = cx.rng.below(vars.len() as u64) as usize;
            for i in 0..n {
                let (vn, params) = &vars[(off + i * 11) % vars.len()];
                cx.lock_case(kname, sub, vn, params, &pws[(ki + i) % pws.len()]);
            }
            // every AEAD variant at least once
            for (vn, params) in vars.iter().filter(|(n, _)| n.starts_with("aead-") && (n.ends_with("argon2") || n.ends_with("iter"))).take(if thorough { 100 } else { 6 }) {
                cx.lock_case(kname, sub, vn, params, b"sub pw");
            }
        }
        // a locked packet body behind the other packet type must not unlock (AEAD), primary <-> subkey
        for (kname, sk) in keys.iter().take(3) {
            for (vn, params) in vars.iter().filter(|(n, _)| n.starts_with("aead-") && n.ends_with("iter")).take(3) {
                let mut k = sk.clone();
                if k.set_password_with_s2k(&Password::from("relabel"), params.clone()).is_err() { continue; }
                let Ok(mut w) = Packet::from(k).to_bytes() else { continue; };
                w[0] = (w[0] & 0xC0) | 7;
                let r = guarded(|| { let mut s = <pgp::packet::SecretSubkey as LockKey>::parse(&w)?; s.remove_password(&Password::from("relabel")).ok().map(|_| true) });
                let unlocked = matches!(r, Ok(Some(true)));
                cx.out.case("", &[], &["relabel".into(), kname.clone(), vn.clone(), hx(&w)], if unlocked { "UNLOCKED under another packet type" } else { "rejected" }, Some(!unlocked), "aead-packet-type-binding");
            }
        }
    }
    // passwords at the edge of the iterated S2K octet count: when salt + password is longer than the
    // coded count the whole of both is hashed once (3.7.1.3); every trailing password octet matters
    {
        let (kname, sk) = &keys[0];
        let (k6name, sk6) = keys.iter().find(|(n, _)| n.starts_with("v6")).unwrap_or(&keys[0]);
        for (coded, decoded) in [(0u8, 1024usize), (1, 1088)] {
            for len in [decoded - 9, decoded - 8, decoded - 7, decoded - 4, decoded, decoded + 1, decoded + 76] {
                let mut pw = cx.rng.bytes(len); for b in pw.iter_mut() { if *b == 0 { *b = 1; } }
                let mut salt = [0u8; 8]; salt.copy_from_slice(&cx.rng.bytes(8));
                let s2k = StringToKey::IteratedAndSalted { hash_alg: HashAlgorithm::Sha256, salt, count: coded };
                let cfb = S2kParams::Cfb { sym_alg: SymmetricKeyAlgorithm::AES256, s2k: s2k.clone(), iv: cx.rng.bytes(16).into() };
                cx.lock_case(kname, sk, &format!("cfb-aes256-iter{coded}-longpw{len}"), &cfb, &pw);
                let aead = S2kParams::Aead { sym_alg: SymmetricKeyAlgorithm::AES128, aead_mode: AeadAlgorithm::Ocb, s2k, nonce: cx.rng.bytes(15).into() };
                cx.lock_case(k6name, sk6, &format!("aead-ocb-aes128-iter{coded}-longpw{len}"), &aead, &pw);
            }
        }
    }
    // ---- keys locked by the key builder: every component unlocks with the passphrase it was given, and with no other; also
    //      after serialising and parsing (primary and subkeys with passphrases of their own, or an open primary over locked subkeys)
    {
        use pgp::composed::{Deserializable, EncryptionCaps, SecretKeyParamsBuilder, SubkeyParamsBuilder};
        for (ver, prim_pw, sub_pws, name) in [
            (KeyVersion::V4, Some("primary-pw"), vec![Some("sub-one"), Some("sub-two")], "v4-own-passphrases"),
            (KeyVersion::V6, Some("primary-pw"), vec![Some("sub-one"), None], "v6-own-passphrases"),
            (KeyVersion::V4, None, vec![Some("sub-one"), Some("sub-one")], "v4-open-primary-locked-subkeys"),
            (KeyVersion::V6, Some("same"), vec![Some("same")], "v6-one-passphrase"),
        ] {
            let built = guarded(|| -> Option<SignedSecretKey> {
                let mut subs = Vec::new();
                for (i, sp) in sub_pws.iter().enumerate() {
                    let mut sb = SubkeyParamsBuilder::default();
                    sb.version(ver).key_type(if ver == KeyVersion::V6 { KeyType::X25519 } else { KeyType::ECDH(ECCCurve::Curve25519Legacy) });
                    if i == 0 { sb.can_encrypt(EncryptionCaps::All); } else { sb.key_type(if ver == KeyVersion::V6 { KeyType::Ed25519 } else { KeyType::Ed25519Legacy }).can_sign(true); }
                    if let Some(p) = sp { sb.passphrase(Some(p.to_string())); }
                    subs.push(sb.build().ok()?);
                }
                let mut pb = SecretKeyParamsBuilder::default();
                pb.version(ver).key_type(if ver == KeyVersion::V6 { KeyType::Ed25519 } else { KeyType::Ed25519Legacy }).can_certify(true).can_sign(true).primary_user_id("c08 <c08@example.org>".into()).subkeys(subs);
                if let Some(p) = prim_pw { pb.passphrase(Some(p.to_string())); }
                pb.build().ok()?.generate(Rng::new(880)).ok()
            });
            let Ok(Some(k)) = built else { cx.out.case("", &[], &["builder-locked".into(), name.into()], "key generation failed", Some(false), "builder-locked-unavailable"); continue; };
            for (form, key) in [("built", Some(k.clone())), ("reparsed", k.to_bytes().ok().and_then(|b| SignedSecretKey::from_bytes(&b[..]).ok()))] {
                let Some(key) = key else { cx.out.case("", &[], &["builder-locked".into(), name.into(), form.into()], "does not parse back", Some(false), "builder-locked"); continue; };
                let candidates = ["primary-pw", "sub-one", "sub-two", "same", "", "wrong"];
                let mut facts: Vec<String> = Vec::new(); let mut ok = true;
                let mut probe = |what: String, given: Option<&str>, unlock: &dyn Fn(&Password) -> bool| {
                    for c in candidates {
                        let opens = guarded(|| unlock(&Password::from(c))).unwrap_or(false);
                        let should = match given { Some(g) => g == c, None => true };
                        if opens != should { ok = false; facts.push(format!("{what}: passphrase {c:?} opens={opens} (given {given:?})")); }
                    }
                };
                probe("primary".into(), prim_pw, &|pw| key.primary_key.unlock(pw, |_, _| Ok(())).map(|r| r.is_ok()).unwrap_or(false));
                for (i, (sub, sp)) in key.secret_subkeys.iter().zip(sub_pws.iter()).enumerate() {
                    probe(format!("subkey {i}"), *sp, &|pw| sub.key.unlock(pw, |_, _| Ok(())).map(|r| r.is_ok()).unwrap_or(false));
                }
                cx.out.case("", &[], &["builder-locked".into(), name.into(), form.into()], &if ok { "every component opens with its own passphrase only".to_string() } else { facts.join(" | ") }, Some(ok), &format!("builder-locked-{form}"));
            }
        }
    }
    cx.out.finish();
}
