//! C19: work and memory are bounded by the input actually supplied. Counting allocator + wall clock.
use std::alloc::{GlobalAlloc, Layout, System};
use std::io::{BufReader, Read, Write};
use std::sync::atomic::{AtomicUsize, Ordering::SeqCst};
use std::time::Instant;

use pgp::composed::{Deserializable, DetachedSignature, Message, MessageBuilder, SignedPublicKey, SignedSecretKey};
use pgp::crypto::aead::{AeadAlgorithm, ChunkSize};
use pgp::crypto::hash::HashAlgorithm;
use pgp::crypto::sym::SymmetricKeyAlgorithm;
use pgp::packet::PacketParser;
use pgp::types::{Password, StringToKey};
use vh::*;

struct Counting;
static CUR: AtomicUsize = AtomicUsize::new(0);
static PEAK: AtomicUsize = AtomicUsize::new(0);
static TOTAL: AtomicUsize = AtomicUsize::new(0);
unsafe impl GlobalAlloc for Counting {
    unsafe fn alloc(&self, l: Layout) -> *mut u8 { let p = System.alloc(l); if !p.is_null() { let c = CUR.fetch_add(l.size(), SeqCst) + l.size(); PEAK.fetch_max(c, SeqCst); TOTAL.fetch_add(l.size(), SeqCst); } p }
    unsafe fn dealloc(&self, p: *mut u8, l: Layout) { System.dealloc(p, l); CUR.fetch_sub(l.size(), SeqCst); }
    unsafe fn realloc(&self, p: *mut u8, l: Layout, n: usize) -> *mut u8 {
        let q = System.realloc(p, l, n);
        if !q.is_null() { if n > l.size() { let c = CUR.fetch_add(n - l.size(), SeqCst) + (n - l.size()); PEAK.fetch_max(c, SeqCst); TOTAL.fetch_add(n - l.size(), SeqCst); } else { CUR.fetch_sub(l.size() - n, SeqCst); } }
        q
    }
}
#[global_allocator]
static A: Counting = Counting;

/// (result, peak live octets above the starting level, total octets allocated, seconds)
fn measure<T>(f: impl FnOnce() -> T) -> (Result<T, String>, usize, usize, f64) {
    let base = CUR.load(SeqCst); PEAK.store(base, SeqCst); let t0 = TOTAL.load(SeqCst);
    let st = Instant::now();
    let r = guarded(f);
    let dt = st.elapsed().as_secs_f64();
    (r, PEAK.load(SeqCst).saturating_sub(base), TOTAL.load(SeqCst) - t0, dt)
}

/// every parser over a blob (keys, signatures, packets, message structure; armored too)
fn parse_all(d: &[u8]) -> usize {
    let mut n = 0;
    for p in PacketParser::new(d) { if p.is_ok() { n += 1; } }
    if SignedPublicKey::from_bytes(d).is_ok() { n += 1; }
    if SignedSecretKey::from_bytes(d).is_ok() { n += 1; }
    if DetachedSignature::from_bytes(d).is_ok() { n += 1; }
    if let Ok(mut m) = Message::from_bytes(d) { n += 1; if !m.is_encrypted() && !m.is_compressed() { let mut sink = [0u8; 4096]; while let Ok(k) = m.read(&mut sink) { if k == 0 { break; } } } }
    // the other ways a caller takes the payload: read_to_end into its own vector, the convenience accessors, read then read_to_end
    if let Ok(mut m) = Message::from_bytes(d) { if !m.is_encrypted() && !m.is_compressed() { let mut v = Vec::new(); if m.read_to_end(&mut v).is_ok() { n += 1; } } }
    if let Ok(mut m) = Message::from_bytes(d) { if !m.is_encrypted() && !m.is_compressed() { if m.as_data_vec().is_ok() { n += 1; } } }
    if let Ok(mut m) = Message::from_bytes(d) { if !m.is_encrypted() && !m.is_compressed() { if m.as_data_string().is_ok() { n += 1; } } }
    if let Ok(mut m) = Message::from_bytes(d) { if !m.is_encrypted() && !m.is_compressed() { let mut b = [0u8; 7]; let _ = m.read(&mut b); let mut v = Vec::new(); if m.read_to_end(&mut v).is_ok() { n += 1; } } }
    n
}

struct Gen { left: u64, x: u64 }
impl Read for Gen { fn read(&mut self, b: &mut [u8]) -> std::io::Result<usize> { let n = (b.len() as u64).min(self.left) as usize; for v in b[..n].iter_mut() { self.x = self.x.wrapping_mul(6364136223846793005).wrapping_add(1442695040888963407); *v = (self.x >> 56) as u8; } self.left -= n as u64; Ok(n) } }

fn main() {
    quiet_panics();
    let cli = cli();
    let mut out = Out::new();
    let mut rng = Rng::new(cli.seed);
    if cli.mode == "replay" {
        if cli.rest.len() >= 4 && cli.rest[0] == "argon" {
            let (t, p, m): (u8, u8, u8) = (cli.rest[1].parse().unwrap_or(0), cli.rest[2].parse().unwrap_or(0), cli.rest[3].parse().unwrap_or(0));
            let ok = StringToKey::Argon2 { salt: [1; 16], t, p, m_enc: m }.derive_key(b"pw", 16).is_ok();
            println!("{}", if ok { "ACCEPTED" } else { "REFUSED" });
        }
        out.finish(); return;
    }
    let thorough = cli.tier == "thorough";

    // ---- 0. literal data packets (bare, behind a one-pass signature, inside an uncompressed "compressed" packet) that declare
    //         2^16 .. 2^31 octets over a body of 32 or 20 000: new-format five-octet and legacy four-octet lengths
    {
        for declared in [1u32 << 16, 1 << 20, 1 << 24, 1 << 28, (1u32 << 31) - 1] {
            for have in [32usize, 20_000] {
                for legacy in [false, true] {
                    let mut body = vec![b'b', 0, 0, 0, 0, 0]; body.extend((0..have).map(|i| i as u8));
                    let mut lit = if legacy { vec![0x80 | (11 << 2) | 2] } else { vec![0xC0 | 11, 0xFF] }; lit.extend(declared.to_be_bytes()); lit.extend_from_slice(&body);
                    let mut comp = vec![0xC0 | 8, 0xFF]; comp.extend(((lit.len() + 1) as u32).to_be_bytes()); comp.push(0); comp.extend_from_slice(&lit);
                    let ops = { let mut o = vec![0xC0 | 4, 13, 3, 0, 8, 27]; o.extend([1u8, 2, 3, 4, 5, 6, 7, 8]); o.push(1); o };
                    for (shape, d) in [("bare", lit.clone()), ("compressed", comp), ("onepass", [ops, lit.clone()].concat())] {
                        let run = |d: &[u8]| { let mut n = parse_all(d); if let Ok(m) = Message::from_bytes(d) { if m.is_compressed() { if let Ok(mut dm) = m.decompress() { let mut v = Vec::new(); if dm.read_to_end(&mut v).is_ok() { n += 1; } } } } if let Ok(m) = Message::from_bytes(d) { if m.is_compressed() { if let Ok(mut dm) = m.decompress() { if dm.as_data_vec().is_ok() { n += 1; } } } } n };
                        let (mut r, mut peak, _t, mut dt) = measure(|| run(&d));
                        let bound = 192 * 1024 + 64 * d.len();
                        if peak > bound { let again = measure(|| run(&d)); r = again.0; peak = again.1; dt = again.3; }
                        let ok = r.is_ok() && peak <= bound && dt < 5.0;
                        out.case("", &[], &["declared-literal".into(), shape.into(), declared.to_string(), have.to_string(), (legacy as u8).to_string()], &format!("peak={peak} bound={bound} secs={:.2} {}", dt, r.as_ref().map(|n| n.to_string()).unwrap_or_else(|e| e.clone())), Some(ok), &format!("declared-literal-{shape}"));
                    }
                }
            }
        }
    }

    // ---- 0a'. partial body lengths that declare far more than follows, at the FIRST length and at a CONTINUATION length (a
    //          512-octet first part fully present, then a length of 2^16 .. 2^30 with 16 octets behind it); and an honest
    //          stream in 4 MiB parts: the reader's buffer does not grow with what a length octet says
    {
        for k in [16u8, 20, 24, 28, 30] {
            for tag in [11u8, 8, 18] {
                let mut d = vec![0xC0 | tag, 0xE0 + 9];
                let mut first = if tag == 11 { vec![b'b', 0, 0, 0, 0, 0] } else if tag == 8 { vec![0u8] } else { vec![1u8] }; first.resize(512, 0x61);
                d.extend_from_slice(&first); d.push(0xE0 + k); d.extend([0x62u8; 16]);
                let (mut r, mut peak, _t, mut dt) = measure(|| parse_all(&d));
                let bound = 192 * 1024 + 64 * d.len();
                if peak > bound { let again = measure(|| parse_all(&d)); r = again.0; peak = again.1; dt = again.3; }
                let ok = r.is_ok() && peak <= bound && dt < 5.0;
                out.case("", &[], &["declared-continuation".into(), tag.to_string(), k.to_string(), hx(&d[..8])], &format!("peak={peak} bound={bound} secs={:.2}", dt), Some(ok), "declared-partial-continuation");
                let mut d1 = vec![0xC0 | tag, 0xE0 + k]; d1.extend_from_slice(&first[..40]);
                let (mut r, mut peak, _t, mut dt) = measure(|| parse_all(&d1));
                let bound = 192 * 1024 + 64 * d1.len();
                if peak > bound { let again = measure(|| parse_all(&d1)); r = again.0; peak = again.1; dt = again.3; }
                out.case("", &[], &["declared-first-partial".into(), tag.to_string(), k.to_string()], &format!("peak={peak} bound={bound} secs={:.2}", dt), Some(r.is_ok() && peak <= bound && dt < 5.0), "declared-partial-first");
            }
        }
        // honest: 12 MiB of literal data in 4 MiB partial parts, read through a 4 KiB sink
        let big = 12usize << 20;
        let mut d = vec![0xC0 | 11u8];
        let mut left = big + 6; let mut firstp = true;
        let mut body = vec![b'b', 0, 0, 0, 0, 0]; body.resize(big + 6, 0x5a);
        let mut pos = 0usize;
        while left >= (4 << 20) { d.push(0xE0 + 22); d.extend_from_slice(&body[pos..pos + (4 << 20)]); pos += 4 << 20; left -= 4 << 20; firstp = false; }
        let _ = firstp; d.push(255); d.extend((left as u32).to_be_bytes()); d.extend_from_slice(&body[pos..]);
        drop(body);
        let run = |d: &[u8]| -> usize { let mut n = 0usize; if let Ok(mut m) = Message::from_bytes(d) { let mut sink = [0u8; 4096]; while let Ok(k) = m.read(&mut sink) { if k == 0 { break; } n += k; } } n };
        let (r, peak, _t, dt) = measure(|| run(&d));
        // the message itself is held by the caller (a slice); what the library adds on top stays small
        let ok = matches!(r, Ok(n) if n == big) && peak <= 1 << 20 && dt < 30.0;
        out.case("", &[], &["honest-large-parts".into(), d.len().to_string()], &format!("read={:?} peak={peak} secs={:.2}", r, dt), Some(ok), "streamed-large-parts");
    }

    // ---- 0b. what is skipped or streamed is not held: a compressed packet of a few dozen kilobytes whose content is a padding
    //          packet (or marker packets, or an unknown-tag packet) of 32 MB in front of a small literal; and a literal of
    //          32 MB of zeros read through a fixed sink.  Peak memory follows the octets supplied (the compressed input).
    {
        use std::io::Write;
        let big = 32usize << 20;
        let frame5 = |tag: u8, n: usize| -> Vec<u8> { let mut v = vec![0xC0 | tag, 0xFF]; v.extend((n as u32).to_be_bytes()); v };
        let lit_hello = { let mut v = vec![0xC0 | 11, 11, b'b', 0, 0, 0, 0, 0]; v.extend_from_slice(b"hello"); v };
        let shapes: Vec<(&str, Vec<u8>, Option<&[u8]>)> = vec![
            ("padding-then-literal", { let mut v = frame5(21, big); v.resize(v.len() + big, 0); v.extend_from_slice(&lit_hello); v }, Some(b"hello")),
            ("unknown-tag-then-literal", { let mut v = frame5(60, big); v.resize(v.len() + big, 0); v.extend_from_slice(&lit_hello); v }, None),
            ("big-literal", { let mut v = frame5(11, big + 6); v.extend_from_slice(&[b'b', 0, 0, 0, 0, 0]); v.resize(v.len() + big, 0); v }, None),
        ];
        for (name, inner, want) in shapes {
            for alg in [1u8, 2] {
                let mut comp = vec![alg];
                let ok = if alg == 1 { let mut e = flate2::write::DeflateEncoder::new(&mut comp, flate2::Compression::default()); e.write_all(&inner).is_ok() && e.finish().is_ok() }
                         else { let mut e = flate2::write::ZlibEncoder::new(&mut comp, flate2::Compression::default()); e.write_all(&inner).is_ok() && e.finish().is_ok() };
                if !ok { continue; }
                let mut d = frame5(8, comp.len()); d.extend_from_slice(&comp);
                drop(comp);
                let run = |d: &[u8]| -> Option<Vec<u8>> {
                    let m = Message::from_bytes(d).ok()?;
                    let mut dm = m.decompress().ok()?;
                    let mut sink = [0u8; 4096]; let mut head = Vec::new();
                    loop { match dm.read(&mut sink) { Ok(0) => break, Ok(k) => { if head.len() < 16 { head.extend_from_slice(&sink[..k.min(16)]); } } Err(_) => return None } }
                    Some(head)
                };
                let (mut r, mut peak, _t, mut dt) = measure(|| run(&d));
                let bound = 192 * 1024 + 64 * d.len();
                if peak > bound { let again = measure(|| run(&d)); r = again.0; peak = again.1; dt = again.3; }
                let content_ok = match (&r, want) { (Ok(Some(h)), Some(w)) => &h[..] == w, (Ok(_), None) => true, _ => false };
                let ok = r.is_ok() && peak <= bound && dt < 20.0 && content_ok;
                out.case("", &[], &["skipped-not-held".into(), name.into(), alg.to_string(), d.len().to_string()], &format!("input={} inflates-to={} peak={peak} bound={bound} secs={:.2} read={}", d.len(), inner.len(), dt, match &r { Ok(Some(_)) => "to the end", Ok(None) => "error", Err(e) => e }), Some(ok), &format!("skipped-not-held-{name}"));
            }
        }
    }

    // ---- 1. sizes declared but not supplied: every position of the first octets of every small fixture packet
    //        overwritten with 0xff.. (1, 2, 4 octets wide); allocation must follow the input, not the claim
    {
        let mut files = Vec::new();
        fn walk(p: &std::path::Path, out: &mut Vec<std::path::PathBuf>) { if let Ok(rd) = std::fs::read_dir(p) { let mut v: Vec<_> = rd.flatten().map(|e| e.path()).collect(); v.sort(); for p in v { if p.is_dir() { walk(&p, out); } else { out.push(p); } } } }
        walk(std::path::Path::new("/repo/tests"), &mut files);
        let mut blobs: Vec<Vec<u8>> = Vec::new();
        for f in files {
            let Ok(raw) = std::fs::read(&f) else { continue; };
            if raw.len() > 30_000 { continue; }
            let bin = if raw.starts_with(b"-----BEGIN PGP") { let mut o = Vec::new(); if pgp::armor::Dearmor::new(&raw[..]).read_to_end(&mut o).is_err() { continue; } o } else { raw };
            if bin.len() >= 8 && bin[0] & 0x80 != 0 { blobs.push(bin); }
        }
        let take = if thorough { blobs.len() } else { 60 };
        let step = (blobs.len() / take.max(1)).max(1);
        let mut worst: (f64, String) = (0.0, String::new());
        for b in blobs.iter().step_by(step).take(take) {
            let short = &b[..b.len().min(600)];
            for pos in 1..short.len().min(if thorough { 120 } else { 48 }) {
                for w in [1usize, 2, 4] {
                    if pos + w > short.len() { continue; }
                    for fill in [0xffu8, 0xfe, 0x7f] {
                        if !thorough && fill != 0xff && pos % 3 != 0 { continue; }
                        let mut d = short.to_vec(); for k in 0..w { d[pos + k] = fill; }
                        let (mut r, mut peak, _total, mut dt) = measure(|| parse_all(&d));
                        // bound: a fixed constant plus a multiple of the octets present
                        let bound = 192 * 1024 + 64 * d.len();
                        // one-time lazy initialisation inside the process (symbol tables for error backtraces, tables of
                        // the crypto crates) is a fixed constant paid once: measure again when it may have been included
                        if peak > bound { let again = measure(|| parse_all(&d)); r = again.0; peak = again.1; dt = again.3; }
                        let ok = r.is_ok() && peak <= bound && dt < 5.0;
                        let ratio = peak as f64 / bound as f64;
                        if ratio > worst.0 { worst = (ratio, format!("{} pos {pos} w {w}", d.len())); }
                        if !ok || (pos % 16 == 0 && w == 4 && fill == 0xff) {
                            out.case("", &[], &["declared".into(), hx(&d), pos.to_string(), w.to_string()], &format!("peak={peak} bound={bound} secs={:.2} {}", dt, r.as_ref().map(|n| n.to_string()).unwrap_or_else(|e| e.clone())), Some(ok), "declared-size-not-supplied");
                        }
                    }
                }
            }
        }
        out.case("", &[], &["declared-summary".into()], &format!("worst peak/bound ratio {:.3} at {}", worst.0, worst.1), Some(worst.0 <= 1.0), "declared-size-summary");
    }
    // the same with room behind the field: the first packet of a fixture / a model-generated packet of every
    // type gets a header that spans its body plus 3000 filler octets, then every position of the first octets of
    // the body is overwritten: a field that now claims a huge size finds more than a buffer-full of data behind it
    {
        let mut sources: Vec<Vec<u8>> = Vec::new();
        if let Ok(path) = std::env::var("VERIF_PREGEN") { if let Ok(t) = std::fs::read_to_string(&path) { for line in t.lines() { if let Some(o) = line.split('\t').nth(1) { if o.len() > 8 && !o.starts_with("NONE") && !o.starts_with("MODEL") { sources.push(unhx(o)); } } } } }
        // a v6 key with an algorithm nobody knows: 4-octet count of key material
        sources.push({ let mut b = vec![6u8, 0, 0, 0, 1, 100, 0, 0, 0, 8]; b.extend([1u8; 8]); let mut p = vec![0xC6, b.len() as u8]; p.extend(b); p });
        sources.push({ let mut b = vec![6u8, 0, 0, 0, 1, 100, 0, 0, 0, 8]; b.extend([1u8; 8]); b.push(0); b.extend([2u8; 8]); let mut p = vec![0xC5, b.len() as u8]; p.extend(b); p });
        let mut worst = 0f64;
        for src in sources {
            if src.len() < 4 || src[0] & 0xC0 != 0xC0 { continue; }
            let hl = if src[1] < 192 { 2 } else if src[1] < 224 { 3 } else if src[1] == 255 { 6 } else { continue };
            let body = &src[hl..];
            let filler = rng.bytes(3000);
            for pos in 0..body.len().min(if thorough { 96 } else { 40 }) {
                for w in [1usize, 2, 4] {
                    if pos + w > body.len() { continue; }
                    let mut b2 = body.to_vec(); for k in 0..w { b2[pos + k] = 0xff; }
                    b2.extend(&filler);
                    let mut d = vec![src[0], 255]; d.extend((b2.len() as u32).to_be_bytes()); d.extend(&b2);
                    let (mut r, mut peak, _t, mut dt) = measure(|| parse_all(&d));
                    let bound = 192 * 1024 + 64 * d.len();
                    if peak > bound { let again = measure(|| parse_all(&d)); r = again.0; peak = again.1; dt = again.3; }
                    let ok = r.is_ok() && peak <= bound && dt < 5.0;
                    worst = worst.max(peak as f64 / bound as f64);
                    if !ok || (pos % 13 == 0 && w == 4) {
                        out.case("", &[], &["declared-with-room".into(), hx(&d[..if ok { d.len().min(200) } else { d.len() }]), d.len().to_string(), pos.to_string(), w.to_string()], &format!("peak={peak} bound={bound} secs={:.2}", dt), Some(ok), &format!("declared-with-room-tag{}", src[0] & 0x3f));
                    }
                }
            }
        }
        out.case("", &[], &["declared-with-room-summary".into()], &format!("worst peak/bound ratio {:.3}", worst), Some(worst <= 1.0), "declared-with-room-summary");
    }
    // length fields set explicitly: packet header claims up to 2^32-1 with n octets supplied; compare with the model of take_bytes
    for tag in [2u8, 6, 13, 11, 17, 1, 3] {
        for n in [0usize, 10, 300, 5000, 70000] {
            for claimed in [65536u32, 1 << 24, u32::MAX] {
                let mut d = vec![0xC0 | tag, 255]; d.extend(claimed.to_be_bytes());
                if tag == 2 { d.extend([4, 0, 1, 8, 0xff, 0xff]); } else if tag == 6 { d.extend([4, 0, 0, 0, 0, 1, 0xff, 0xff]); } else if tag == 11 { d.extend([b'b', 0xff]); }
                d.extend(rng.bytes(n));
                let (mut r, mut peak, _t, mut dt) = measure(|| parse_all(&d));
                let bound = 192 * 1024 + 64 * d.len();
                if peak > bound { let again = measure(|| parse_all(&d)); r = again.0; peak = again.1; dt = again.3; }
                out.case("take", &[claimed.to_string(), d.len().to_string()], &["claimed".into(), tag.to_string(), n.to_string(), claimed.to_string()], &format!("peak={peak}"), Some(r.is_ok() && peak <= bound && dt < 5.0), &format!("claimed-length-tag{tag}"));
            }
        }
    }

    // ---- 2. deeply repeated structures: time linear, memory not growing with the count
    for (name, unit) in [("marker", vec![0xCAu8, 3, b'P', b'G', b'P']), ("padding", vec![0xD5u8, 4, 1, 2, 3, 4]), ("trust", vec![0xCCu8, 1, 0])] {
        let n1 = if thorough { 100_000 } else { 30_000 };
        let mk = |n: usize| { let mut v = Vec::with_capacity(n * unit.len()); for _ in 0..n { v.extend(&unit); } v };
        let (d1, d2) = (mk(n1), mk(2 * n1));
        let (r1, p1, _, t1) = measure(|| PacketParser::new(&d1[..]).filter(|p| p.is_ok()).count());
        let (r2, p2, _, t2) = measure(|| PacketParser::new(&d2[..]).filter(|p| p.is_ok()).count());
        let ok = r1.is_ok() && r2.is_ok() && p2 <= p1 + 64 * 1024 && p2 <= 1 << 20 && t2 <= 3.5 * t1.max(0.005);
        out.case("", &[], &["repeat".into(), name.into(), n1.to_string()], &format!("peak {p1} -> {p2}, secs {:.3} -> {:.3}", t1, t2), Some(ok), &format!("repeated-{name}"));
        let (r3, p3, _, t3) = measure(|| Message::from_bytes(&d2[..]).is_ok());
        out.case("", &[], &["repeat-message".into(), name.into(), n1.to_string()], &format!("peak {p3} secs {:.3}", t3), Some(r3.is_ok() && p3 <= 1 << 20 && t3 < 10.0), &format!("repeated-{name}-message"));
    }
    // a certificate with many signatures: linear memory, linear time
    {
        let k = vh::keys::gen_key(pgp::types::KeyVersion::V4, pgp::composed::KeyType::Ed25519Legacy, 1900);
        let pk = SignedPublicKey::from(k);
        use pgp::ser::Serialize;
        let b = pk.to_bytes().unwrap_or_default();
        // key, uid, sig: repeat the signature packet
        let mut parts: Vec<Vec<u8>> = Vec::new(); let mut d = &b[..];
        while d.len() >= 2 { let l = match d[1] { x @ 0..=191 => 2 + x as usize, x @ 192..=223 => 3 + ((x as usize - 192) << 8) + d[2] as usize + 192, _ => 6 + u32::from_be_bytes([d[2], d[3], d[4], d[5]]) as usize }; if l > d.len() { break; } parts.push(d[..l].to_vec()); d = &d[l..]; }
        if parts.len() >= 3 {
            let n1 = if thorough { 20_000 } else { 4_000 };
            let mk = |n: usize| { let mut v = parts[0].clone(); v.extend(&parts[1]); for _ in 0..n { v.extend(&parts[2]); } v };
            let (d1, d2) = (mk(n1), mk(2 * n1));
            let (r1, p1, _, t1) = measure(|| SignedPublicKey::from_bytes(&d1[..]).is_ok());
            let (r2, p2, _, t2) = measure(|| SignedPublicKey::from_bytes(&d2[..]).is_ok());
            let ok = r1.is_ok() && r2.is_ok() && p2 <= 48 * d2.len() + (1 << 20) && p2 <= 2 * p1 + (1 << 20) && t2 <= 3.5 * t1.max(0.01);
            out.case("", &[], &["repeat-signatures".into(), n1.to_string()], &format!("input {} -> {} octets, peak {p1} -> {p2}, secs {:.3} -> {:.3}", d1.len(), d2.len(), t1, t2), Some(ok), "repeated-signatures-on-certificate");
        }
    }

    // ---- 3. streaming large messages: bounded buffer whatever the size
    {
        let dir = "/verif/.build/tmp_c19"; let _ = std::fs::create_dir_all(dir);
        let sizes: Vec<u64> = if thorough { vec![8 << 20, 64 << 20, 256 << 20] } else { vec![4 << 20, 24 << 20] };
        let mut peaks: Vec<(u64, usize, usize)> = Vec::new();
        let key = vh::keys::gen_key(pgp::types::KeyVersion::V6, pgp::composed::KeyType::Ed25519, 1901);
        for &n in &sizes {
            let path = format!("{dir}/m{n}.pgp");
            let (re, pe, _, te) = measure(|| {
                use pgp::types::SigningKey;
                let f = std::fs::File::create(&path).map_err(|e| e.to_string())?;
                let mut b = MessageBuilder::from_reader("big", Gen { left: n, x: 7 }).seipd_v2(Rng::new(1), SymmetricKeyAlgorithm::AES128, AeadAlgorithm::Ocb, ChunkSize::C64KiB);
                b.sign(&key.primary_key, Password::empty(), key.primary_key.hash_alg());
                b.encrypt_with_password(Rng::new(2), StringToKey::new_iterated(Rng::new(3), HashAlgorithm::Sha256, 10), &"pw".into()).map_err(|e| e.to_string())?;
                b.to_writer(Rng::new(4), std::io::BufWriter::new(f)).map_err(|e| e.to_string())
            });
            let okw = matches!(re, Ok(Ok(())));
            let (rd, pd, _, td) = measure(|| -> Result<u64, String> {
                let f = std::fs::File::open(&path).map_err(|e| e.to_string())?;
                let m = Message::from_bytes(BufReader::new(f)).map_err(|e| e.to_string())?;
                let mut d = m.decrypt_with_password(&"pw".into()).map_err(|e| e.to_string())?;
                let mut buf = vec![0u8; 65536]; let mut tot = 0u64;
                loop { let k = d.read(&mut buf).map_err(|e| e.to_string())?; if k == 0 { break; } tot += k as u64; }
                let pk = SignedPublicKey::from(key.clone());
                d.verify(&pk).map_err(|e| e.to_string())?;
                Ok(tot)
            });
            let okr = matches!(rd, Ok(Ok(t)) if t == n);
            let _ = std::fs::remove_file(&path);
            peaks.push((n, pe, pd));
            let cap = 6 << 20;
            out.case("", &[], &["stream".into(), n.to_string()], &format!("write ok={okw} peak={pe} secs={:.1}; read ok={okr} peak={pd} secs={:.1}", te, td), Some(okw && okr && pe <= cap && pd <= cap), "streaming-bounded-buffer");
        }
        if peaks.len() >= 2 {
            let (a, b) = (peaks[0], peaks[peaks.len() - 1]);
            let ok = b.1 <= a.1 + (1 << 20) && b.2 <= a.2 + (1 << 20);
            out.case("", &[], &["stream-growth".into()], &format!("{} octets: {}/{}; {} octets: {}/{}", a.0, a.1, a.2, b.0, b.1, b.2), Some(ok), "streaming-peak-independent-of-size");
        }
        let _ = std::fs::remove_dir_all(dir);
    }

    // ---- 4. key-derivation cost ceilings: every Argon2 parameter octet, every iterated count octet
    {
        let ts: Vec<u8> = if thorough { (0..=255).collect() } else { vec![0, 1, 2, 32, 33, 128, 255] };
        let ps: Vec<u8> = vec![0, 1, 2, 3, 4, 5, 8, 9, 16, 17, 31, 32, 33, 64, 255];
        for &t in &ts { for &p in &ps { for m in 0..=255u8 {
            if !thorough && m > 40 && m % 17 != 0 { continue; }
            // only parameter sets that are cheap if accepted are actually run; the refusals are the point
            let cheap = (m as u32) <= 13 && (t as u64) * (1u64 << m.min(13)) <= 1 << 15;
            let should_refuse = t > 32 || p > 32 || m > 21;
            if !cheap && !should_refuse { continue; }
            // the full grid of the thorough tier has about a million sets above the ceilings; each costs a child process, so they
            // are probed on and next to the ceilings and at the far ends (a gate is a comparison per parameter)
            if thorough && should_refuse && !cheap {
                let te = t <= 32 || [33u8, 34, 48, 64, 128, 255].contains(&t);
                let pe = p <= 32 || [33u8, 64, 255].contains(&p);
                let me = m <= 21 || [22u8, 23, 24, 31, 32, 40, 64, 128, 255].contains(&m);
                if !(te && pe && me) || (t <= 32 && t % 8 != 0 && t != 1 && t != 31) { continue; }
            }
            let s2k = StringToKey::Argon2 { salt: [1; 16], t, p, m_enc: m };
            // parameter sets that would need more than 2 GiB if let through are probed in a child process with an
            // address-space limit, so that a broken gate shows as a refused allocation instead of taking the machine
            // ... and sets above the ceilings that would be expensive if let through get three seconds in a child: a gate that
            // lets one through shows as "still running" (= allowed) instead of stalling the whole check
            let (r, peak, dt): (Result<bool, String>, usize, f64) = if should_refuse && !cheap && !(m >= 22 && t <= 32 && p <= 32) {
                let exe = std::env::current_exe().unwrap();
                let st = Instant::now();
                let o = std::process::Command::new("sh").arg("-c").arg(format!("ulimit -v 3500000; exec timeout 3 {} replay argon {} {} {}", exe.display(), t, p, m)).output();
                let dt = st.elapsed().as_secs_f64();
                match o {
                    Ok(o) if o.status.code() == Some(124) => (Ok(true), 0, 0.0),
                    Ok(o) if o.status.success() => (Ok(String::from_utf8_lossy(&o.stdout).contains("ACCEPTED")), 0, dt),
                    Ok(_) => (Ok(true), 0, 0.0),     // died under the address-space limit: it was allocating, i.e. let through
                    Err(e) => (Err(e.to_string()), 0, dt),
                }
            } else if m >= 22 && t <= 32 && p <= 32 {
                let exe = std::env::current_exe().unwrap();
                let st = Instant::now();
                let o = std::process::Command::new("sh").arg("-c").arg(format!("ulimit -v 3500000; exec {} replay argon {} {} {}", exe.display(), t, p, m)).output();
                let dt = st.elapsed().as_secs_f64();
                match o { Ok(o) if o.status.success() => (Ok(String::from_utf8_lossy(&o.stdout).contains("ACCEPTED")), 0, dt), Ok(o) => (Err(format!("child died: {}", String::from_utf8_lossy(&o.stderr).lines().last().unwrap_or("").chars().take(80).collect::<String>())), 0, dt), Err(e) => (Err(e.to_string()), 0, dt) }
            } else { let (r, peak, _, dt) = measure(|| s2k.derive_key(b"pw", 16).is_ok()); (r, peak, dt) };
            let accepted = matches!(r, Ok(true));
            let quick_refusal = accepted || (dt < 1.0 && peak < (1 << 20));
            out.case("argon", &[t.to_string(), p.to_string(), m.to_string()], &["argon2".into(), t.to_string(), p.to_string(), m.to_string()], if accepted { "allow" } else { "refuse" }, Some(r.is_ok() && quick_refusal && !(should_refuse && accepted)), if accepted { "argon2-accepted" } else { "argon2-refused" });
        } } }
        let cs: Vec<u8> = if thorough { (0..=255).collect() } else { vec![0, 1, 96, 200, 224, 255] };
        for c in cs {
            let s2k = StringToKey::IteratedAndSalted { hash_alg: HashAlgorithm::Sha256, salt: [2; 8], count: c };
            let (r, peak, _, dt) = measure(|| s2k.derive_key(b"p", 32).is_ok());
            out.case("iter", &[c.to_string()], &["iterated".into(), c.to_string()], &format!("{}", 16u64 + (c as u64 & 15) << ((c as u32 >> 4) + 6)), Some(matches!(r, Ok(true)) && peak < (1 << 20) && dt < 20.0), "iterated-count");
        }
    }
    out.finish();
}
