//! C17: packet framing -- reader accepts every legal framing, writer emits only legal.
use std::io::Read;

use pgp::composed::{Message, MessageBuilder, PacketBodyReader};
use pgp::packet::{PacketHeader, PacketParser};
use pgp::types::{CompressionAlgorithm, PacketHeaderVersion, PacketLength};
use vh::*;

fn be32(n: u32) -> Vec<u8> { n.to_be_bytes().to_vec() }

/// harness-side framer (inputs only; the model's framer is compared with it)
fn enc_fixed(cls: u8, n: u32) -> Vec<u8> {
    match cls {
        1 => vec![n as u8],
        2 => vec![(((n - 192) >> 8) + 192) as u8, ((n - 192) & 0xff) as u8],
        _ => { let mut v = vec![255]; v.extend(be32(n)); v }
    }
}
fn frame_new(tag: u8, ks: &[u32], cls: u8, body: &[u8]) -> Vec<u8> {
    let mut out = vec![0xC0 | tag];
    let mut pos = 0usize;
    for &k in ks {
        out.push((224 + k) as u8);
        let c = 1usize << k;
        let e = (pos + c).min(body.len());
        out.extend_from_slice(&body[pos..e]);
        pos = e;
    }
    out.extend(enc_fixed(cls, (body.len() - pos) as u32));
    out.extend_from_slice(&body[pos..]);
    out
}
fn frame_old(tag: u8, lt: u8, body: &[u8]) -> Vec<u8> {
    let mut out = vec![0x80 | (tag << 2) | lt];
    match lt {
        0 => out.push(body.len() as u8),
        1 => out.extend((body.len() as u16).to_be_bytes()),
        2 => out.extend(be32(body.len() as u32)),
        _ => {}
    }
    out.extend_from_slice(body);
    out
}

fn show_len(l: PacketLength) -> String {
    match l {
        PacketLength::Fixed(n) => format!("F{n}"),
        PacketLength::Partial(n) => format!("P{n}"),
        PacketLength::Indeterminate => "I".into(),
    }
}

/// library: header + body reader + what is left of the input
fn lib_deframe(bytes: &[u8], src: &[usize], consumer: u8, reqs: &[usize]) -> String {
    let r = guarded(|| -> Result<String, String> {
        let mut rd = SchedBufReader::new(bytes.to_vec(), src.to_vec());
        let header = PacketHeader::try_from_reader(&mut rd).map_err(|e| e.to_string())?;
        let f = match header.version() { PacketHeaderVersion::New => "N", PacketHeaderVersion::Old => "O" };
        let tag: u8 = header.tag().into();
        let len = show_len(header.packet_length());
        let body = {
            let mut br = PacketBodyReader::new(header, &mut rd).map_err(|e| e.to_string())?;
            let (out, res) = match consumer {
                0 => consume_to_end(&mut br),
                1 => consume_read(&mut br, reqs),
                _ => consume_bufread(&mut br, reqs),
            };
            res?;
            out
        };
        let mut rest = Vec::new();
        rd.read_to_end(&mut rest).map_err(|e| e.to_string())?;
        Ok(format!("OK {f} {tag} {len} {} {}", hx(&body), hx(&rest)))
    });
    match r {
        Ok(Ok(s)) => s,
        Ok(Err(_)) => "ERR".into(),
        Err(p) => p,
    }
}

struct Ctx { out: Out, rng: Rng }

impl Ctx {
    fn sched(&mut self) -> (Vec<usize>, u8, Vec<usize>) {
        let src = match self.rng.below(5) {
            0 => vec![], 1 => vec![1], 2 => vec![self.rng.range(1, 9000) as usize],
            3 => vec![8191, 1, 2], _ => vec![self.rng.range(1, 5) as usize, self.rng.range(1, 700) as usize],
        };
        let consumer = self.rng.below(3) as u8;
        let reqs = match self.rng.below(4) { 0 => vec![], 1 => vec![1], 2 => vec![8192], _ => vec![self.rng.range(1, 600) as usize] };
        (src, consumer, reqs)
    }
    /// pred: for inputs the harness framed legally, the library must return the body
    fn deframe(&mut self, bytes: &[u8], expect_body: Option<(&[u8], &[u8])>, cls: &str) {
        let (src, consumer, reqs) = self.sched();
        let imp = lib_deframe(bytes, &src, consumer, &reqs);
        let pred = match expect_body {
            Some((b, rest)) => Some(imp.ends_with(&format!(" {} {}", hx(b), hx(rest))) && imp.starts_with("OK")),
            None => Some(!imp.starts_with("PANIC")),
        };
        // the model runs the reader machine of the theorems under this consumer's request sizes (and the one-shot specification)
        self.out.case("deframe", &[hx(bytes), consumer.to_string(), nums(&reqs)],
            &["deframe".into(), hx(bytes), nums(&src), consumer.to_string(), nums(&reqs)], &imp, pred, cls);
    }
    fn frame_new_case(&mut self, tag: u8, ks: &[u32], clsn: u8, body: &[u8], rest: &[u8], cls: &str) {
        let mut bytes = frame_new(tag, ks, clsn, body);
        let ksn: Vec<usize> = ks.iter().map(|&k| k as usize).collect();
        // harness framer = model framer (sanity tie for the generator)
        self.out.case("frame_new", &[tag.to_string(), nums(&ksn), clsn.to_string(), hx(body)], &[], &hx(&bytes), None, "framer-tie");
        bytes.extend_from_slice(rest);
        self.deframe(&bytes, Some((body, rest)), cls);
    }
    fn frame_old_case(&mut self, tag: u8, lt: u8, body: &[u8], rest: &[u8], cls: &str) {
        let mut bytes = frame_old(tag, lt, body);
        self.out.case("frame_old", &[tag.to_string(), lt.to_string(), hx(body)], &[], &hx(&bytes), None, "framer-tie");
        bytes.extend_from_slice(rest);
        self.deframe(&bytes, Some((body, rest)), cls);
    }

    /// library writer (builder from a reader of unknown length): equals the
    /// model's emit_partial, and the library reads its own output back
    fn emit(&mut self, k: u32, data: &[u8], compress: bool, known_len: bool, cls: &str) {
        let c = 1u32 << k;
        let d = data.to_vec();
        let (src, _, _) = self.sched();
        let r = guarded(|| -> Result<Vec<u8>, String> {
            if known_len {
                let mut b = MessageBuilder::from_bytes("", d.clone());
                b.partial_chunk_size(c).map_err(|e| e.to_string())?;
                if compress { b.compression(CompressionAlgorithm::Uncompressed); }
                b.to_vec(Rng::new(1)).map_err(|e| e.to_string())
            } else {
                let mut b = MessageBuilder::from_reader("", SchedReader::new(d.clone(), src.clone()));
                b.partial_chunk_size(c).map_err(|e| e.to_string())?;
                if compress { b.compression(CompressionAlgorithm::Uncompressed); }
                b.to_vec(Rng::new(1)).map_err(|e| e.to_string())
            }
        });
        let (imp, pred) = match r {
            Ok(Ok(bytes)) => {
                // read back
                let back = guarded(|| -> Result<Vec<u8>, String> {
                    let mut m = Message::from_bytes(&bytes[..]).map_err(|e| e.to_string())?;
                    if compress { m = m.decompress().map_err(|e| e.to_string())?; }
                    let mut out = Vec::new();
                    m.read_to_end(&mut out).map_err(|e| e.to_string())?;
                    Ok(out)
                });
                (hx(&bytes), matches!(back, Ok(Ok(ref o)) if o == data))
            }
            Ok(Err(e)) => (format!("ERR {e}"), false),
            Err(p) => (p, false),
        };
        let op = match (compress, known_len) { (false, false) => "emit_lit", (true, false) => "emit_lit_comp", (false, true) => "emit_lit_fixed", (true, true) => "emit_lit_comp_fixed" };
        self.out.case(op, &[k.to_string(), hx(data)],
            &[op.into(), k.to_string(), hx(data), nums(&src)], &imp, Some(pred), cls);
    }

    /// the library's length / header writers against the model encoders, and read back
    fn hdr_write(&mut self, tag: u8, n: u32, cls: &str) {
        use pgp::ser::Serialize;
        use pgp::types::Tag;
        let r = guarded(|| -> Result<(Vec<u8>, Vec<u8>, Vec<u8>, Option<Vec<u8>>, bool), String> {
            let mut a = Vec::new();
            PacketLength::Fixed(n).to_writer_new(&mut a).map_err(|e| e.to_string())?;
            let h = PacketHeader::new_fixed(Tag::from(tag), n);
            let mut b = Vec::new();
            h.to_writer(&mut b).map_err(|e| e.to_string())?;
            let mut c = Vec::new();
            PacketHeaderVersion::New.write_header(&mut c, Tag::from(tag), n as usize).map_err(|e| e.to_string())?;
            let d = if tag < 16 {
                let mut d = Vec::new();
                PacketHeaderVersion::Old.write_header(&mut d, Tag::from(tag), n as usize).map_err(|e| e.to_string())?;
                Some(d)
            } else { None };
            // truthful lengths and read-back
            let mut ok = a.len() == PacketLength::fixed_encoding_len(n) && b.len() == h.write_len()
                && c.len() == PacketHeaderVersion::New.header_len(n as usize)
                && d.as_ref().map(|d| d.len() == PacketHeaderVersion::Old.header_len(n as usize)).unwrap_or(true);
            ok &= matches!(PacketLength::try_from_reader(&a[..]), Ok(PacketLength::Fixed(m)) if m == n);
            for hb in [Some(&b), Some(&c), d.as_ref()].into_iter().flatten() {
                ok &= matches!(PacketHeader::try_from_reader(&hb[..]), Ok(ph) if ph.packet_length() == PacketLength::Fixed(n) && u8::from(ph.tag()) == tag);
            }
            Ok((a, b, c, d, ok))
        });
        match r {
            Ok(Ok((a, b, c, d, ok))) => {
                // the legacy header through the packet-header value as well (its own length-type choice), for a tag the
                // legacy format can carry whatever `tag` is: octets = model, write_len truthful, reads back
                {
                    let t_old = tag % 16;
                    let e = guarded(|| -> Option<(Vec<u8>, bool)> {
                        let h = PacketHeader::from_parts(PacketHeaderVersion::Old, Tag::from(t_old), PacketLength::Fixed(n)).ok()?;
                        let mut e = Vec::new(); h.to_writer(&mut e).ok()?;
                        let back = matches!(PacketHeader::try_from_reader(&e[..]), Ok(ph) if ph.packet_length() == PacketLength::Fixed(n) && u8::from(ph.tag()) == t_old);
                        Some((e.clone(), back && e.len() == h.write_len()))
                    });
                    match e {
                        Ok(Some((e, good))) => self.out.case("enc_hdr_old", &[t_old.to_string(), n.to_string()], &["hdr_write".into(), tag.to_string(), n.to_string()], &hx(&e), Some(good), &format!("{cls}-old-from-parts")),
                        Ok(None) => self.out.case("enc_hdr_old", &[t_old.to_string(), n.to_string()], &["hdr_write".into(), tag.to_string(), n.to_string()], "ERR", Some(false), &format!("{cls}-old-from-parts")),
                        Err(pn) => self.out.case("", &[], &["hdr_write".into(), tag.to_string(), n.to_string()], &pn, Some(false), &format!("{cls}-old-from-parts")),
                    }
                }
                self.out.case("enc_len", &[n.to_string()], &["hdr_write".into(), tag.to_string(), n.to_string()], &hx(&a), Some(ok), cls);
                self.out.case("enc_hdr_new", &[tag.to_string(), n.to_string()], &["hdr_write".into(), tag.to_string(), n.to_string()], &hx(&b), Some(b == c), cls);
                if let Some(d) = d { self.out.case("enc_hdr_old", &[tag.to_string(), n.to_string()], &["hdr_write".into(), tag.to_string(), n.to_string()], &hx(&d), None, cls); }
            }
            Ok(Err(e)) => self.out.case("enc_len", &[n.to_string()], &["hdr_write".into(), tag.to_string(), n.to_string()], &format!("ERR {e}"), Some(false), cls),
            Err(pn) => self.out.case("enc_len", &[n.to_string()], &["hdr_write".into(), tag.to_string(), n.to_string()], &pn, Some(false), cls),
        }
    }

    /// PacketParser: the same packet value whichever framing carries the body
    fn parse_same(&mut self, tag: u8, body: &[u8], ks: &[u32], clsn: u8, old_lt: Option<u8>, cls: &str) {
        let canon = frame_new(tag, &[], if body.len() < 192 { 1 } else if body.len() < 8384 { 2 } else { 5 }, body);
        let alt = match old_lt { Some(lt) => frame_old(tag, lt, body), None => frame_new(tag, ks, clsn, body) };
        let r = guarded(|| {
            let a: Vec<_> = PacketParser::new(&canon[..]).collect();
            let b: Vec<_> = PacketParser::new(&alt[..]).collect();
            let show = |v: &Vec<pgp::errors::Result<pgp::packet::Packet>>| v.iter().map(|p| match p {
                Ok(p) => { use pgp::ser::Serialize; format!("{:?}", p.to_bytes().map(|b| hx(&b[p_hdr_len(&b)..]))) }
                Err(_) => "ERR".to_string() }).collect::<Vec<_>>().join("|");
            // written again, the packet is legally framed: a packet read from any current-format framing is written with the one
            // fixed-length header its body has (the same octets as the canonical framing's); a legacy header keeps its format
            let whole = |v: &Vec<pgp::errors::Result<pgp::packet::Packet>>| v.iter().map(|p| match p {
                Ok(p) => { use pgp::ser::Serialize; p.to_bytes().map(|b| hx(&b)).unwrap_or_else(|_| "ERR".into()) }
                Err(_) => "ERR".to_string() }).collect::<Vec<_>>().join("|");
            let rewritten_same = old_lt.is_some() || whole(&a) == whole(&b);
            // ... and what was written parses back to one packet that is written the same way again
            let reparsed_same = { use pgp::ser::Serialize; b.iter().all(|p| match p { Ok(p) => p.to_bytes().ok().map(|w| { let again: Vec<_> = PacketParser::new(&w[..]).collect(); again.len() == 1 && matches!(&again[0], Ok(q) if q.to_bytes().ok().as_deref() == Some(&w[..])) }).unwrap_or(false), Err(_) => true }) };
            (show(&a), show(&b), rewritten_same && reparsed_same, if b.len() == 1 && b[0].is_ok() { Some(whole(&b)) } else { None })
        });
        // the same against the model's rule for writing a packet that was read (Frame/Rewrite.v)
        if let Ok((_, _, _, Some(w))) = &r { if w != "ERR" {
            let indet = old_lt == Some(3);
            self.out.case("rewrite", &[(old_lt.is_some() as u8).to_string(), tag.to_string(), (indet as u8).to_string(), hx(body)], &["parse_same".into(), tag.to_string(), hx(body), nums(&ks.iter().map(|&k| k as usize).collect::<Vec<_>>()), clsn.to_string(), old_lt.map(|x| x.to_string()).unwrap_or("-".into())], w, None, &format!("{cls}-rewritten"));
        } }
        let r = r.map(|(a, b, c, _)| (a, b, c));
        let (imp, pred) = match r { Ok((a, b, rw)) => (format!("{} rewritten-legally={}", (a == b) as u8, rw as u8), a == b && !a.contains("ERR") && rw), Err(p) => (p, false) };
        self.out.case("", &[], &["parse_same".into(), tag.to_string(), hx(body), nums(&ks.iter().map(|&k| k as usize).collect::<Vec<_>>()), clsn.to_string(), old_lt.map(|x| x.to_string()).unwrap_or("-".into())], &imp, Some(pred), cls);
    }
}

impl Ctx {
    /// PacketParser over a stream: whatever packet X is (any tag, accepted or refused), the packet behind it is found
    /// exactly behind X's announced length
    fn stream_split(&mut self, tag: u8, x: &[u8], how: &str) {
        use pgp::ser::Serialize;
        let after = pgp::packet::UserId::from_str(pgp::types::PacketHeaderVersion::New, "after").ok().and_then(|u| pgp::packet::Packet::from(u).to_bytes().ok()).unwrap_or_default();
        let stream = [x, &after[..]].concat();
        let r = guarded(|| {
            let items: Vec<_> = PacketParser::new(&stream[..]).take(10).collect();
            let shown: Vec<String> = items.iter().enumerate().map(|(i, p)| match p { Ok(pgp::packet::Packet::UserId(u)) if i > 0 => format!("UserId({})", String::from_utf8_lossy(u.id())), Ok(_) => "Ok".into(), Err(_) => "Err".into() }).collect();
            shown.join(",")
        });
        let (imp, pred) = match r { Ok(s) => { let ok = s == "Ok,UserId(after)" || s == "Err,UserId(after)"; (s, ok) } Err(p) => (p, false) };
        self.out.case("", &[], &["stream_split".into(), tag.to_string(), how.into(), hx(&stream[..stream.len().min(700)])], &imp, Some(pred), &format!("stream-split-{}", if imp.starts_with("Err") { "refused" } else { "accepted" }));
    }
}

/// length of the (new-format) header of a serialised packet
fn p_hdr_len(b: &[u8]) -> usize {
    if b.len() < 2 { return b.len(); }
    if b[0] & 0x40 != 0 {
        match b[1] { 0..=191 => 2, 192..=223 => 3, 255 => 6, _ => 2 }
    } else {
        match b[0] & 3 { 0 => 2, 1 => 3, 2 => 5, _ => 1 }
    }
}

fn body_for(rng: &mut Rng, n: usize) -> Vec<u8> { rng.bytes(n) }

fn literal_body(data: &[u8]) -> Vec<u8> {
    let mut v = vec![b'b', 0, 0, 0, 0, 0];
    v.extend_from_slice(data);
    v
}

fn main() {
    quiet_panics();
    let cli = cli();
    let mut cx = Ctx { out: Out::new(), rng: Rng::new(cli.seed) };
    if cli.mode == "replay" {
        replay(&mut cx, &cli.rest);
        cx.out.finish();
        return;
    }
    let thorough = cli.tier == "thorough";
    let data_tags = [8u8, 9, 11, 18, 20];

    // 0. streams: a packet of every tag (its body: a serialised user id packet, or 300 octets), every fixed-length framing,
    //    then one more packet: the parser finds it exactly behind the announced length, whether it accepted the first or not
    {
        use pgp::ser::Serialize;
        let inside = pgp::packet::UserId::from_str(pgp::types::PacketHeaderVersion::New, "inside").ok().and_then(|u| pgp::packet::Packet::from(u).to_bytes().ok()).unwrap_or_default();
        let big = body_for(&mut cx.rng, 300);
        for tag in 0u8..64 {
            for (bn, body) in [("uid", &inside), ("300", &big)] {
                for cls in [1u8, 2, 5] {
                    if (cls == 1 && body.len() >= 192) || (cls == 2 && body.len() < 192) { continue; }
                    if tag == 0 { continue; }
                    let x = frame_new(tag, &[], cls, body);
                    cx.stream_split(tag, &x, &format!("new{cls}-{bn}"));
                }
                if tag > 0 && tag < 16 { for lt in [0u8, 1, 2] { if lt == 0 && body.len() > 255 { continue; } let x = frame_old(tag, lt, body); cx.stream_split(tag, &x, &format!("old{lt}-{bn}")); } }
            }
        }
    }

    // 0b. the two literal writers of the builder driven directly (hook literal_generator_run) with request sizes of every kind:
    //     the header served in pieces, one octet at a time, requests on and around the chunk size
    {
        let reqsets: Vec<Vec<usize>> = vec![vec![], vec![1], vec![2], vec![3, 1], vec![7], vec![8], vec![9], vec![5, 4], vec![1, 600], vec![511], vec![512], vec![513], vec![4, 1, 1, 1, 1, 9000]];
        for fixed in [true, false] {
            for n in [0usize, 1, 5, 185, 186, 505, 506, 507, 512, 1018, 1030, 8377, 8378, 9000] {
                let data = body_for(&mut cx.rng, n);
                for k in [9u32, 10] {
                    if fixed && k != 9 { continue; }
                    for reqs in &reqsets {
                        let r = guarded(|| pgp::verif_hooks::literal_generator_run(fixed, 1 << k, &data, reqs));
                        let imp = match r { Ok(Ok(o)) => hx(&o), Ok(Err(_)) => "ERR".into(), Err(p) => p };
                        cx.out.case("litgen", &[(fixed as u8).to_string(), k.to_string(), hx(&data), nums(reqs)], &["litgen".into(), (fixed as u8).to_string(), k.to_string(), n.to_string(), nums(reqs)], &imp, None, if fixed { "literal-writer-fixed-requests" } else { "literal-writer-partial-requests" });
                    }
                }
            }
        }
    }

    // 0c. PacketHeader::from_parts over the whole grid: every type id 0..63 x both formats x lengths of every class. It either
    //     refuses (only: legacy format with an id that does not fit its four bits) or builds a header that reports, writes and
    //     reads back as the type, format and length asked for
    {
        use pgp::ser::Serialize; use pgp::types::Tag;
        for id in 0u8..64 {
            for old in [false, true] {
                for n in [0u32, 5, 191, 192, 255, 256, 8383, 8384, 65535, 65536] {
                    let ver = if old { PacketHeaderVersion::Old } else { PacketHeaderVersion::New };
                    let r = guarded(|| -> Result<Option<String>, String> {
                        let Ok(h) = PacketHeader::from_parts(ver, Tag::from(id), PacketLength::Fixed(n)) else { return Ok(None) };
                        let w = h.to_bytes().map_err(|e| e.to_string())?;
                        let back = PacketHeader::try_from_reader(&mut &w[..]).map_err(|e| format!("written header does not read back: {e}"))?;
                        let same = u8::from(back.tag()) == id && u8::from(h.tag()) == id && back.version() == ver && back.packet_length() == PacketLength::Fixed(n);
                        Ok(Some(format!("{} reads-back-same={}", hx(&w), same as u8)))
                    });
                    let must_refuse = old && id >= 16;
                    let (imp, pred) = match r { Ok(Ok(None)) => ("refused".to_string(), must_refuse), Ok(Ok(Some(s))) => { let ok = s.ends_with("=1") && !must_refuse; (s, ok) } Ok(Err(e)) => (e, false), Err(p) => (p, false) };
                    cx.out.case("", &[], &["from_parts".into(), id.to_string(), (old as u8).to_string(), n.to_string()], &imp, Some(pred), if must_refuse { "from-parts-must-refuse" } else { "from-parts-grid" });
                }
            }
        }
    }

    // 1. every tag x both formats x every length class, small bodies at class edges
    for tag in 0u8..64 {
        for &n in &[0usize, 1, 191, 192, 193, 255, 256, 8383, 8384] {
            let body = body_for(&mut cx.rng, n);
            for cls in [1u8, 2, 5] {
                let ok = match cls { 1 => n < 192, 2 => (192..8384).contains(&n), _ => true };
                if ok {
                    cx.frame_new_case(tag, &[], cls, &body, &[0xAA, 0xBB][..(n % 3).min(2)], "new-fixed");
                }
            }
            if tag < 16 {
                for lt in 0u8..4 {
                    let ok = match lt { 0 => n < 256, 1 => n < 65536, _ => true };
                    if ok {
                        let rest: &[u8] = if lt == 3 { &[] } else { &[0x01][..n % 2] };
                        cx.frame_old_case(tag, lt, &body, rest, "old");
                    }
                }
            }
        }
    }
    // 65535/65536 edges for old and new
    for &n in &[65535usize, 65536, 70000] {
        let body = body_for(&mut cx.rng, n);
        cx.frame_new_case(11, &[], 5, &body, &[], "new-fixed-large");
        cx.frame_old_case(11, if n < 65536 { 1 } else { 2 }, &body, &[7], "old-large");
        cx.frame_old_case(11, 2, &body, &[], "old-large");
    }
    // 2. partial chunk sequences on data tags
    let nseq = if thorough { 4000 } else { 500 };
    for i in 0..nseq {
        let tag = *cx.rng.pick(&data_tags);
        let first = cx.rng.range(9, if i % 7 == 0 { 16 } else { 11 }) as u32;
        let mut ks = vec![first];
        let extra = cx.rng.below(5);
        for _ in 0..extra {
            let hi = if cx.rng.chance(1, 6) { 14 } else { 10 };
            ks.push(cx.rng.range(0, hi) as u32);
        }
        let sum: usize = ks.iter().map(|&k| 1usize << k).sum();
        if sum > 80000 { continue; }
        let last = *cx.rng.pick(&[0usize, 0, 1, 5, 191, 192, 200, 8383, 8384]);
        let last = if sum + last > 90000 { 0 } else { last };
        let body = body_for(&mut cx.rng, sum + last);
        let cls = if last < 192 { *cx.rng.pick(&[1u8, 1, 5]) } else if last < 8384 { *cx.rng.pick(&[2u8, 5]) } else { 5 };
        let rest = body_for(&mut cx.rng, (i % 3) as usize);
        cx.frame_new_case(tag, &ks, cls, &body, &rest, "new-partial");
    }
    // 3. illegal framings
    for tag in 0u8..64 {
        let body = body_for(&mut cx.rng, 512 + 3);
        // partial on any tag (legal only for data tags)
        let b = frame_new(tag, &[9], 1, &body);
        cx.deframe(&b, if data_tags.contains(&tag) { Some((&body, &[])) } else { None }, "partial-any-tag");
    }
    for k in 0u32..=8 {
        // first partial under 512
        let body = body_for(&mut cx.rng, (1usize << k) + 2);
        let b = frame_new(11, &[k], 1, &body);
        cx.deframe(&b, None, "first-partial-short");
    }
    for k in 17u32..=30 {
        // declared huge partial chunk over a short body
        let mut b = vec![0xC0 | 11, (224 + k) as u8];
        b.extend(body_for(&mut cx.rng, 600));
        cx.deframe(&b, None, "partial-declared-huge");
    }
    {
        // every truncation of a small multi-chunk packet and of fixed packets
        let body = body_for(&mut cx.rng, 512 + 1 + 2 + 3);
        let full = frame_new(18, &[9, 0, 1], 1, &body);
        let step = if thorough { 1 } else { 7 };
        let mut cut = 0;
        while cut < full.len() { cx.deframe(&full[..cut], None, "truncated-partial"); cut += if cut < 8 || cut + 12 > full.len() { 1 } else { step }; }
        for &n in &[5usize, 200, 300] {
            let body = body_for(&mut cx.rng, n);
            for cls in [1u8, 2, 5] {
                if (cls == 1 && n >= 192) || (cls == 2 && n < 192) { continue; }
                let full = frame_new(2, &[], cls, &body);
                for cut in 0..full.len() { if cut < 10 || cut % 37 == 0 || cut + 3 > full.len() { cx.deframe(&full[..cut], None, "truncated-fixed"); } }
            }
            for lt in 0u8..3 {
                if lt == 0 && n >= 256 { continue; }
                let full = frame_old(6, lt, &body);
                for cut in 0..full.len() { if cut < 8 || cut + 2 > full.len() { cx.deframe(&full[..cut], None, "truncated-old"); } }
            }
        }
    }
    // the packet parser above the body reader: a packet whose stream ends before the declared length is never handed out as a
    // packet, also when its own parser needs fewer octets than were declared (marker, one-pass signature, MDC, trust, ...);
    // the same body honestly framed is accepted (so the refusal is about the length)
    {
        let ops: Vec<u8> = { let mut v = vec![3u8, 0, 8, 1]; v.extend([7u8; 8]); v.push(1); v };
        let bodies: Vec<(u8, Vec<u8>)> = vec![(10, b"PGP".to_vec()), (4, ops), (19, vec![0x5a; 20]), (12, vec![1, 2, 3]), (13, b"someone".to_vec()), (21, vec![9; 12]),
            (11, { let mut v = vec![b'b', 0, 0, 0, 0, 0]; v.extend(b"data"); v })];
        for (tag, body) in &bodies {
            for extra in [0usize, 1, 2, 16, 300, 70000] {
                let declared = body.len() + extra;
                let mut framings: Vec<(String, Vec<u8>)> = Vec::new();
                if declared < 192 { let mut w = vec![0xC0 | tag, declared as u8]; w.extend(body); framings.push(("new-1".into(), w)); }
                if (192..8384).contains(&declared) { let mut w = vec![0xC0 | tag, ((declared - 192) >> 8) as u8 + 192, ((declared - 192) & 0xff) as u8]; w.extend(body); framings.push(("new-2".into(), w)); }
                { let mut w = vec![0xC0 | tag, 255]; w.extend((declared as u32).to_be_bytes()); w.extend(body); framings.push(("new-5".into(), w)); }
                if *tag < 16 {
                    if declared < 256 { let mut w = vec![0x80 | (tag << 2), declared as u8]; w.extend(body); framings.push(("old-1".into(), w)); }
                    if declared < 65536 { let mut w = vec![0x80 | (tag << 2) | 1]; w.extend((declared as u16).to_be_bytes()); w.extend(body); framings.push(("old-2".into(), w)); }
                    { let mut w = vec![0x80 | (tag << 2) | 2]; w.extend((declared as u32).to_be_bytes()); w.extend(body); framings.push(("old-4".into(), w)); }
                }
                for (fname, w) in framings {
                    let r = guarded(|| { let mut pp = PacketParser::new(&w[..]); let first = pp.next(); let second = pp.next(); (matches!(first, Some(Ok(_))), first.is_none(), second.is_none()) });
                    let rp = vec!["parser-short-body".to_string(), tag.to_string(), extra.to_string(), fname.clone(), hx(&w)];
                    match r {
                        Ok((ok, none, second_none)) => {
                            let pred = if extra == 0 { ok && second_none } else { !ok && !none };
                            cx.out.case("", &[], &rp, &format!("handed-out={ok} silent-end={none}"), Some(pred), if extra == 0 { "parser-honest-length" } else { "parser-short-body" });
                        }
                        Err(p) => cx.out.case("", &[], &rp, &p, Some(false), "parser-short-body-panic"),
                    }
                }
            }
        }
    }

    // every first octet x a few second octets over a short tail
    for o in 0u16..256 {
        for &l in &[0u8, 5, 191, 192, 223, 224, 233, 254, 255] {
            let mut b = vec![o as u8, l];
            b.extend(body_for(&mut cx.rng, 40));
            cx.deframe(&b, None, "first-octets");
        }
    }
    let nrand = if thorough { 20000 } else { 2000 };
    for _ in 0..nrand {
        let n = cx.rng.range(0, 30) as usize;
        let mut b = cx.rng.bytes(n);
        if !b.is_empty() && cx.rng.chance(3, 4) { b[0] |= 0x80; }
        cx.deframe(&b, None, "random");
    }

    // 3b. the library's own length and header writers: every length around the class edges
    for n in (0u32..=300).chain(8100..=8700).chain(65400..=65700) { let tag = (n % 64) as u8; cx.hdr_write(tag, n, "hdr-write-sweep"); }
    if thorough { for n in 300u32..=70000 { cx.hdr_write((n % 64) as u8, n, "hdr-write-sweep"); } }
    for _ in 0..300 {
        let n = match cx.rng.below(4) { 0 => cx.rng.below(1 << 16) as u32, 1 => cx.rng.below(1 << 24) as u32, 2 => cx.rng.next() as u32, _ => u32::MAX - cx.rng.below(3) as u32 };
        let tag = cx.rng.below(64) as u8;
        cx.hdr_write(tag, n, "hdr-write-random");
    }
    // 4. what the library writes
    // chunk size 2^14: closing pieces at the length-class edges (191/192, 8383/8384)
    for last in [0usize, 1, 191, 192, 193, 8383, 8384, 8385, 16383] {
        let c = 1usize << 14;
        for full in [1usize, 2] {
            let n = full * c - 6 + last;
            let data = body_for(&mut cx.rng, n);
            cx.emit(14, &data, false, false, "emit-literal-edge");
            if full == 1 { cx.emit(14, &data, true, false, "emit-literal-in-uncompressed-edge"); }
        }
        if last + 6 < c { let data = body_for(&mut cx.rng, last); cx.emit(14, &data, false, false, "emit-literal-edge-single"); }
    }
    let ks: &[u32] = if thorough { &[9, 10, 11, 12, 13, 16] } else { &[9, 10, 12] };
    for &k in ks {
        let c = 1usize << k;
        let mut lens = vec![0usize, 1, 5, c - 7, c - 6, c - 5, c - 1, c, c + 1, 2 * c - 7, 2 * c - 6, 2 * c - 5, 2 * c, 3 * c - 6, 3 * c + 17];
        if thorough { for d in 0..20 { lens.push(c - 10 + d); lens.push(2 * c - 16 + d); } }
        for n in lens {
            let data = body_for(&mut cx.rng, n);
            cx.emit(k as u32, &data, false, false, "emit-literal");
            cx.emit(k as u32, &data, true, false, "emit-literal-in-uncompressed");
            if n % 2 == 1 || n < 10 {
                cx.emit(k as u32, &data, false, true, "emit-literal-fixed");
                cx.emit(k as u32, &data, true, true, "emit-literal-in-uncompressed-fixed");
            }
        }
    }
    // 5. the same packet value whichever framing carries it
    let npar = if thorough { 600 } else { 120 };
    for i in 0..npar {
        let n = *cx.rng.pick(&[0usize, 1, 100, 191, 192, 506, 507, 1018, 2000, 8400]);
        let body = literal_body(&body_for(&mut cx.rng, n));
        let bl = body.len();
        let mut ks = vec![];
        let mut left = bl;
        let mut first = true;
        while left >= 512 && cx.rng.chance(2, 3) {
            let maxk = (usize::BITS - 1 - left.leading_zeros()) as u64;
            let k = if first { cx.rng.range(9, maxk) } else { cx.rng.range(0, maxk) } as u32;
            ks.push(k); left -= 1 << k; first = false;
            if left == 0 { break; }
        }
        let cls = if left < 192 { *cx.rng.pick(&[1u8, 5]) } else if left < 8384 { *cx.rng.pick(&[2u8, 5]) } else { 5 };
        cx.parse_same(11, &body, &ks, cls, None, "parse-same-literal");
        if i % 3 == 0 {
            let lt = if bl < 256 { *cx.rng.pick(&[0u8, 1, 2, 3]) } else if bl < 65536 { *cx.rng.pick(&[1u8, 2, 3]) } else { 2 };
            cx.parse_same(11, &body, &[], 0, Some(lt), "parse-same-literal-old");
            let uid = body_for(&mut cx.rng, n.min(300)).iter().map(|b| b'a' + b % 26).collect::<Vec<u8>>();
            cx.parse_same(13, &uid, &[], 5, None, "parse-same-userid");
            cx.parse_same(13, &uid, &[], 0, Some(if uid.len() < 256 { 1 } else { 2 }), "parse-same-userid-old");
        }
    }
    cx.out.finish();
}

fn parse_nums(s: &str) -> Vec<usize> {
    if s == "_" { vec![] } else { s.split(',').map(|x| x.parse().unwrap()).collect() }
}

fn replay(cx: &mut Ctx, a: &[String]) {
    match a[0].as_str() {
        "deframe" => {
            let bytes = unhx(&a[1]);
            let src = parse_nums(a.get(2).map(|s| s.as_str()).unwrap_or("_"));
            let consumer: u8 = a.get(3).map(|s| s.parse().unwrap()).unwrap_or(0);
            let reqs = parse_nums(a.get(4).map(|s| s.as_str()).unwrap_or("_"));
            let imp = lib_deframe(&bytes, &src, consumer, &reqs);
            cx.out.case("deframe", &[hx(&bytes), consumer.to_string(), nums(&reqs)], a, &imp, Some(!imp.starts_with("PANIC")), "replay");
        }
        "emit_lit" | "emit_lit_comp" | "emit_lit_fixed" | "emit_lit_comp_fixed" => {
            let k: u32 = a[1].parse().unwrap();
            cx.emit(k, &unhx(&a[2]), a[0].contains("comp"), a[0].contains("fixed"), "replay");
        }
        "hdr_write" => cx.hdr_write(a[1].parse().unwrap(), a[2].parse().unwrap(), "replay"),
        "parse_same" => {
            let ks: Vec<u32> = parse_nums(&a[3]).iter().map(|&k| k as u32).collect();
            cx.parse_same(a[1].parse().unwrap(), &unhx(&a[2]), &ks, a[4].parse().unwrap(), if a[5] == "-" { None } else { Some(a[5].parse().unwrap()) }, "replay");
        }
        "frame_new" => {
            let ks: Vec<u32> = parse_nums(&a[2]).iter().map(|&k| k as u32).collect();
            cx.frame_new_case(a[1].parse().unwrap(), &ks, a[3].parse().unwrap(), &unhx(&a[4]), &[], "replay");
        }
        "frame_old" => cx.frame_old_case(a[1].parse().unwrap(), a[2].parse().unwrap(), &unhx(&a[3]), &[], "replay"),
        _ => panic!("unknown op"),
    }
}
