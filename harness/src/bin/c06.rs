//! C06: signature completeness -- what any signing API signs, every verify API accepts.
use std::io::{Read, Write};

use pgp::crypto::hash::HashAlgorithm;
use pgp::composed::{ArmorOptions, CleartextSignedMessage, Deserializable, DetachedSignature, KeyType, Message, MessageBuilder, SignedPublicKey, SignedSecretKey};
use pgp::crypto::ecc_curve::ECCCurve;
use pgp::ser::Serialize;
use pgp::packet::{SignatureConfig, SignatureType, Subpacket, SubpacketData};
use pgp::types::{KeyDetails, KeyVersion, Password, SigningKey, Timestamp};
use vh::keys::gen_key;
use vh::*;

struct Ctx { out: Out, rng: Rng }

fn strings_over(alpha: &[u8], len: usize) -> Vec<Vec<u8>> {
    let mut out = vec![vec![]];
    for _ in 0..len { let mut next = Vec::new(); for s in &out { for &a in alpha { let mut t = s.clone(); t.push(a); next.push(t); } } out = next; }
    out
}

impl Ctx {
    /// all sign interfaces x all verify interfaces for one payload and key
    fn matrix(&mut self, key: &SignedSecretKey, text: bool, payload: &[u8], cls: &str) {
        let h = key.primary_key.hash_alg();
        self.matrix_h(key, text, payload, cls, h, false);
    }

    /// the same with a caller-chosen hash algorithm; `may_refuse`: a signing interface may decline the combination
    /// (then nothing is claimed), but whatever it does sign must verify
    fn matrix_h(&mut self, key: &SignedSecretKey, text: bool, payload: &[u8], cls: &str, hash: HashAlgorithm, may_refuse: bool) {
        let pk = SignedPublicKey::from(key.clone());
        let mut results: Vec<(String, bool)> = Vec::new();
        let mut detached: Vec<(&str, pgp::packet::Signature)> = Vec::new();
        // --- sign interfaces producing a bare signature
        if let Ok(Ok(s)) = guarded(|| if text { DetachedSignature::sign_text_data(Rng::new(1), &key.primary_key, &Password::empty(), hash, payload) } else { DetachedSignature::sign_binary_data(Rng::new(1), &key.primary_key, &Password::empty(), hash, payload) }) {
            detached.push(("detached", s.signature));
        } else { results.push(("sign:detached".into(), false)); }
        // low-level config + streaming hasher with a random chunking
        let comp = self.rng.composition(payload.len());
        let r = guarded(|| -> Option<pgp::packet::Signature> {
            let typ = if text { SignatureType::Text } else { SignatureType::Binary };
            let mut cfg = SignatureConfig::from_key(Rng::new(2), &key.primary_key, typ).ok()?;
            cfg.hashed_subpackets = vec![
                Subpacket::regular(SubpacketData::SignatureCreationTime(Timestamp::from_secs(1_700_000_000))).ok()?,
                Subpacket::regular(SubpacketData::IssuerFingerprint(key.fingerprint())).ok()?,
            ];
            let mut h = cfg.into_hasher().ok()?;
            for c in split_by(payload, &comp) { h.write_all(&c).ok()?; }
            h.sign(&key.primary_key, &Password::empty()).ok()
        });
        match r { Ok(Some(s)) => detached.push(("hasher", s)), _ => results.push(("sign:hasher".into(), false)) }
        // --- the payload given to the signing interfaces as a READER that returns short reads (a pipe, a chained reader)
        for (tag, sched) in [("reader-1", vec![1usize]), ("reader-3-1", vec![3, 1]), ("reader-half", vec![payload.len() / 2 + 1])] {
            let r = guarded(|| {
                let rd = SchedReader::new(payload.to_vec(), sched.clone());
                if text { DetachedSignature::sign_text_data(Rng::new(3), &key.primary_key, &Password::empty(), hash, rd) } else { DetachedSignature::sign_binary_data(Rng::new(3), &key.primary_key, &Password::empty(), hash, rd) }.ok().map(|d| d.signature)
            });
            match r { Ok(Some(s)) => detached.push((tag, s)), _ => results.push((format!("sign:{tag}"), false)) }
        }
        // --- verify interfaces for bare signatures
        for (name, sig) in &detached {
            let src = self.rng.composition(payload.len());
            results.push((format!("{name}->verify(slice)"), sig.verify(&pk, payload).is_ok()));
            results.push((format!("{name}->verify(reader)"), sig.verify(&pk, SchedReader::new(payload.to_vec(), src)).is_ok()));
            // serialise, armor, parse again
            let ds = DetachedSignature::new(sig.clone());
            let re = ds.to_armored_string(ArmorOptions::default()).ok().and_then(|a| DetachedSignature::from_string(&a).ok()).map(|(d, _)| d);
            results.push((format!("{name}->armor->verify"), re.map(|d| d.verify(&pk, payload).is_ok()).unwrap_or(false)));
            let re = ds.to_bytes().ok().and_then(|b| DetachedSignature::from_bytes(&b[..]).ok());
            results.push((format!("{name}->bytes->verify"), re.map(|d| d.verify(&pk, payload).is_ok()).unwrap_or(false)));
            // the same signature packet in front of a literal data packet (prefixed, not one-pass: what older
            // implementations write; the builder never does): Message::verify must accept it as well
            for mode in if text { vec![b't', b'u', b'b'] } else { vec![b'b'] } {
                let r = guarded(|| -> Option<bool> {
                    let mut msg = pgp::packet::Packet::from(sig.clone()).to_bytes().ok()?;
                    let mut body = vec![mode, 0, 0, 0, 0, 0]; body.extend_from_slice(payload);
                    msg.push(0xC0 | 11);
                    let n = body.len();
                    if n < 192 { msg.push(n as u8); } else if n < 8384 { msg.push(((n - 192) >> 8) as u8 + 192); msg.push(((n - 192) & 0xff) as u8); } else { msg.push(255); msg.extend((n as u32).to_be_bytes()); }
                    msg.extend_from_slice(&body);
                    let mut m = Message::from_bytes(&msg[..]).ok()?;
                    let mut o = Vec::new(); m.read_to_end(&mut o).ok()?;
                    Some(o == payload && m.verify(&pk).is_ok())
                });
                results.push((format!("{name}->prefixed message (literal mode {})->verify", mode as char), r.ok().flatten().unwrap_or(false)));
            }
            if text {
                // the CRLF form of the document verifies too
                let crlf: Vec<u8> = { let mut o = Vec::new(); let mut p = false; for &b in payload { if b == 10 && !p { o.push(13); } o.push(b); p = b == 13; } o };
                results.push((format!("{name}->verify(crlf form)"), sig.verify(&pk, &crlf[..]).is_ok()));
            }
        }
        // --- message builder (one-pass), from bytes and from a reader; read back with verify
        for from_reader in [false, true] {
            let src = self.rng.composition(payload.len());
            let r = guarded(|| -> Option<Vec<u8>> {
                if from_reader {
                    let mut b = MessageBuilder::from_reader("", SchedReader::new(payload.to_vec(), src.clone()));
                    if text { b.sign_text(); } else { b.sign_binary(); }
                    b.sign(&key.primary_key, Password::empty(), hash);
                    b.to_vec(Rng::new(3)).ok()
                } else {
                    let mut b = MessageBuilder::from_bytes("", payload.to_vec());
                    if text { b.sign_text(); } else { b.sign_binary(); }
                    b.sign(&key.primary_key, Password::empty(), hash);
                    b.to_vec(Rng::new(3)).ok()
                }
            });
            let tag = if from_reader { "builder(reader)" } else { "builder(bytes)" };
            match r {
                Ok(Some(bytes)) => {
                    let ok = guarded(|| { let mut m = Message::from_bytes(&bytes[..]).ok()?; let mut o = Vec::new(); m.read_to_end(&mut o).ok()?; Some(o == payload && m.verify(&pk).is_ok()) }).ok().flatten().unwrap_or(false);
                    results.push((format!("{tag}->message verify"), ok));
                    // armored
                    let arm = guarded(|| { let mut b = MessageBuilder::from_bytes("", payload.to_vec()); if text { b.sign_text(); } else { b.sign_binary(); } b.sign(&key.primary_key, Password::empty(), hash); b.to_armored_string(Rng::new(3), ArmorOptions::default()).ok() }).ok().flatten();
                    if !from_reader {
                        let ok = arm.and_then(|a| guarded(|| { let (mut m, _) = Message::from_string(&a).ok()?; let mut o = Vec::new(); m.read_to_end(&mut o).ok()?; Some(o == payload && m.verify(&pk).is_ok()) }).ok().flatten()).unwrap_or(false);
                        results.push((format!("{tag}->armor->message verify"), ok));
                    }
                }
                _ => results.push((format!("sign:{tag}"), false)),
            }
        }
        // --- cleartext framework (text payloads that are valid UTF-8)
        if text {
            if let Ok(t) = String::from_utf8(payload.to_vec()) {
                if !t.ends_with('\r') {   // recorded finding csf-text-ends-with-cr (C16)
                    let r = guarded(|| CleartextSignedMessage::sign(Rng::new(4), &t, &key.primary_key, &Password::empty()).ok());
                    match r {
                        Ok(Some(m)) => {
                            results.push(("cleartext->verify".into(), m.verify(&pk).is_ok()));
                            let re = m.to_armored_string(ArmorOptions::default()).ok().and_then(|a| CleartextSignedMessage::from_string(&a).ok());
                            results.push(("cleartext->armor->verify".into(), re.map(|(m2, _)| m2.verify(&pk).is_ok()).unwrap_or(false)));
                            // its signature is an ordinary text signature over the signed text
                            let st = m.signed_text();
                            results.push(("cleartext->Signature::verify(signed_text)".into(), m.signatures().iter().all(|s| s.verify(&pk, st.as_bytes()).is_ok())));
                        }
                        _ => results.push(("sign:cleartext".into(), false)),
                    }
                    // the several-signers interface: this key twice, with two digests; verify (this key) and verify_many (all)
                    let r = guarded(|| {
                        use pgp::packet::{SignatureConfig, SignatureType, Subpacket, SubpacketData};
                        use pgp::types::{KeyDetails, Timestamp};
                        CleartextSignedMessage::new_many(&t, |st| {
                            let mut out = Vec::new();
                            for (i, h) in [hash, if hash == pgp::crypto::hash::HashAlgorithm::Sha512 { pgp::crypto::hash::HashAlgorithm::Sha256 } else { pgp::crypto::hash::HashAlgorithm::Sha512 }].into_iter().enumerate() {
                                let mut c = SignatureConfig::from_key(Rng::new(40 + i as u64), &key.primary_key, SignatureType::Text)?;
                                if key.version() != pgp::types::KeyVersion::V6 { c.hash_alg = h; }
                                c.hashed_subpackets = vec![Subpacket::regular(SubpacketData::SignatureCreationTime(Timestamp::from_secs(1_700_000_000)))?, Subpacket::regular(SubpacketData::IssuerFingerprint(key.primary_key.fingerprint()))?];
                                out.push(c.sign(&key.primary_key, &Password::empty(), st.as_bytes())?);
                            }
                            Ok(out)
                        }).ok()
                    });
                    match r {
                        Ok(Some(m)) => {
                            let all = |m: &CleartextSignedMessage| m.verify_many(|_i, sig, text| sig.verify(&pk, text).map(|_| ())).is_ok();
                            results.push(("cleartext-many->verify".into(), m.verify(&pk).is_ok() && all(&m)));
                            let re = m.to_armored_string(ArmorOptions::default()).ok().and_then(|a| CleartextSignedMessage::from_string(&a).ok());
                            results.push(("cleartext-many->armor->verify".into(), re.map(|(m2, _)| m2.verify(&pk).is_ok() && all(&m2) && m2.signatures().len() == 2).unwrap_or(false)));
                        }
                        _ => results.push(("sign:cleartext-many".into(), false)),
                    }
                }
            }
        }
        if may_refuse { results.retain(|(n, ok)| *ok || !n.starts_with("sign:")); }
        let failed: Vec<String> = results.iter().filter(|(_, ok)| !ok).map(|(n, _)| n.clone()).collect();
        let imp = if failed.is_empty() { format!("all {} ok", results.len()) } else { format!("FAILED {}", failed.join(",")) };
        // the model is asked for the canonical text: the digest paths are tied under C14/C11; here the predicate is the matrix
        self.out.case(if text { "canon" } else { "" }, &if text { vec![hx(payload)] } else { vec![] }, &["matrix".into(), (text as u8).to_string(), hx(payload), hx(key.fingerprint().as_bytes()), u8::from(hash).to_string()],
            &if text { let c: Vec<u8> = { let mut o = Vec::new(); let mut p = false; for &b in payload { if b == 10 && !p { o.push(13); } o.push(b); p = b == 13; } o }; format!("{} {}", hx(&c), imp) } else { imp.clone() },
            Some(failed.is_empty()), cls);
    }


    /// signed data inside a wrapper whose reader pulls with its own buffer sizes (uncompressed "compression" packet with
    /// 512-octet partial chunks; SEIPDv1 with its 8 KiB blocks): what the builder wrote must read back and verify
    fn wrapped(&mut self, key: &SignedSecretKey, text: bool, n: usize, enc: bool, cls: &str) {
        use pgp::crypto::sym::SymmetricKeyAlgorithm;
        use pgp::types::{CompressionAlgorithm, StringToKey};
        let pk = SignedPublicKey::from(key.clone());
        let payload: Vec<u8> = (0..n).map(|j| if text && j % 53 == 52 { b'\n' } else { b'a' + (j % 26) as u8 }).collect();
        let pw = Password::from("c06");
        let r = guarded(|| -> Option<bool> {
            let bytes = if enc {
                let mut b = MessageBuilder::from_bytes("", payload.clone()).seipd_v1(Rng::new(5), SymmetricKeyAlgorithm::AES128);
                if text { b.sign_text(); }
                b.sign(&key.primary_key, Password::empty(), key.primary_key.hash_alg());
                b.encrypt_with_password(StringToKey::new_iterated(Rng::new(6), HashAlgorithm::Sha256, 10), &pw).ok()?;
                b.to_vec(Rng::new(7)).ok()?
            } else {
                let mut b = MessageBuilder::from_bytes("", payload.clone());
                b.compression(CompressionAlgorithm::Uncompressed); b.partial_chunk_size(512).ok()?;
                if text { b.sign_text(); }
                b.sign(&key.primary_key, Password::empty(), key.primary_key.hash_alg());
                b.to_vec(Rng::new(7)).ok()?
            };
            let m = Message::from_bytes(&bytes[..]).ok()?;
            let m = if enc { m.decrypt_with_password(&pw).ok()? } else { m };
            let mut m = if m.is_compressed() { m.decompress().ok()? } else { m };
            let mut o = Vec::new(); m.read_to_end(&mut o).ok()?;
            Some(o == payload && m.verify(&pk).is_ok())
        });
        let ok = matches!(r, Ok(Some(true)));
        self.out.case("", &[], &["wrapped".into(), (text as u8).to_string(), n.to_string(), (enc as u8).to_string(), hx(key.fingerprint().as_bytes())], if ok { "reads back and verifies" } else { "FAILED" }, Some(ok), cls);
    }

    /// several signers: signature j verifies under key j (and not under another key)
    fn multi(&mut self, keys: &[&SignedSecretKey], text: bool, payload: &[u8], cls: &str) {
        let r = guarded(|| -> Option<Vec<u8>> {
            let mut b = MessageBuilder::from_bytes("", payload.to_vec());
            if text { b.sign_text(); } else { b.sign_binary(); }
            for k in keys { b.sign(&k.primary_key, Password::empty(), k.primary_key.hash_alg()); }
            b.to_vec(Rng::new(5)).ok()
        });
        let ok = match r {
            Ok(Some(bytes)) => guarded(|| {
                let mut m = Message::from_bytes(&bytes[..]).ok()?;
                let mut o = Vec::new(); m.read_to_end(&mut o).ok()?;
                if o != payload { return Some(false); }
                let n = keys.len();
                let mut all = true;
                // each key verifies exactly one of the n signatures
                for k in keys {
                    let pk = SignedPublicKey::from((*k).clone());
                    let hits = (0..n).filter(|&i| m.verify_nested_explicit(i, &pk).is_ok()).count();
                    all &= hits == 1;
                }
                // every verifying interface that applies: verify, verify_nested with all keys in
                // signing order, in reverse order, and with each key alone
                use pgp::composed::VerificationResult as VR;
                let pks: Vec<SignedPublicKey> = keys.iter().map(|k| SignedPublicKey::from((*k).clone())).collect();
                // (verify looks at the signature at index 0 only: exactly one of the signers passes it)
                all &= pks.iter().filter(|pk| m.verify(*pk).is_ok()).count() == 1;
                let valid = |refs: &[&dyn pgp::types::VerifyingKey]| -> bool { m.verify_nested(refs).map(|v| v.len() == refs.len() && v.iter().all(|r| matches!(r, VR::Valid(_)))).unwrap_or(false) };
                let fwd: Vec<&dyn pgp::types::VerifyingKey> = pks.iter().map(|p| p as &dyn pgp::types::VerifyingKey).collect();
                let rev: Vec<&dyn pgp::types::VerifyingKey> = pks.iter().rev().map(|p| p as &dyn pgp::types::VerifyingKey).collect();
                all &= valid(&fwd) && valid(&rev);
                for p in &pks { all &= valid(&[p as &dyn pgp::types::VerifyingKey]); }
                Some(all)
            }).ok().flatten().unwrap_or(false),
            _ => false,
        };
        self.out.case("", &[], &["multi".into(), keys.len().to_string(), (text as u8).to_string(), hx(payload)], &format!("{}", ok as u8), Some(ok), cls);
    }
}

fn main() {
    quiet_panics();
    let cli = cli();
    let mut cx = Ctx { out: Out::new(), rng: Rng::new(cli.seed) };
    if cli.mode == "replay" { cx.out.finish(); return; }
    let thorough = cli.tier == "thorough";
    let k_ed4 = gen_key(KeyVersion::V4, KeyType::Ed25519Legacy, 601);
    let k_ed6 = gen_key(KeyVersion::V6, KeyType::Ed25519, 602);
    let k_ec = gen_key(KeyVersion::V4, KeyType::ECDSA(ECCCurve::P256), 603);
    let k_rsa = gen_key(KeyVersion::V4, KeyType::Rsa(2048), 604);
    let k_448 = gen_key(KeyVersion::V6, KeyType::Ed448, 605);
    // exhaustive over the 3-symbol abstraction
    let l = if thorough { 7 } else { 5 };
    for len in 0..=l {
        for s in strings_over(&[13, 10, b'x'], len) {
            cx.matrix(&k_ed4, true, &s, "exhaustive-text-v4");
            if len <= 4 || thorough { cx.matrix(&k_ed6, true, &s, "exhaustive-text-v6"); }
            if len <= 3 { cx.matrix(&k_ed4, false, &s, "exhaustive-binary-v4"); }
        }
    }
    // richer alphabet, random, longer; other key algorithms
    let alpha: Vec<&[u8]> = vec![b"\r", b"\n", b"\t", b" ", b"-", "\u{e9}".as_bytes(), "\u{1F600}".as_bytes(), b"\0", b"x", b"line"];
    let n = if thorough { 600 } else { 80 };
    for i in 0..n {
        let len = cx.rng.range(0, if i % 10 == 0 { 3000 } else { 40 }) as usize;
        let mut s = Vec::new();
        for _ in 0..len { let a: &[u8] = *cx.rng.pick(&alpha[..]); s.extend_from_slice(a); }
        let key = [&k_ed4, &k_ed6, &k_ec, &k_rsa, &k_448][i % 5];
        cx.matrix(key, true, &s, "random-text");
        if i % 3 == 0 { cx.matrix(key, false, &s, "random-binary"); }
    }
    // internal buffer edges: payloads whose length sits at or next to a multiple of the
    // normalisers' windows (512, 1024, 4096, 8192), ending in each line-ending shape
    {
        let tails: Vec<&[u8]> = vec![b"\r", b"\r\r", b"\n\r", b"\r\n", b"\n", b"x", b" \r"];
        let sizes: Vec<usize> = if thorough { vec![511, 512, 513, 1023, 1024, 1025, 1536, 2048, 4095, 4096, 4097, 8192, 16384] } else { vec![511, 512, 513, 1024, 4096] };
        for (i, &n) in sizes.iter().enumerate() {
            for t in &tails {
                let mut s = vec![b'a'; n - t.len()];
                if n > 600 { s[255] = b'\n'; s[511] = if t.len() + 511 < n { b'\r' } else { s[511] }; }
                s.extend_from_slice(t);
                let key = [&k_ed4, &k_ed6, &k_ec][i % 3];
                cx.matrix(key, true, &s, "window-edge-text");
            }
        }
    }
    // payloads longer than the readers' 8 KiB buffers: every block after the first must be hashed too
    for (i, n) in [8192usize, 8193, 16384 + 7, 20011].into_iter().enumerate() {
        let mut s: Vec<u8> = (0..n).map(|j| if j % 61 == 60 { b'\n' } else { b'a' + (j % 23) as u8 }).collect();
        *s.last_mut().unwrap() = if i % 2 == 0 { b'\n' } else { b'z' };
        let key = [&k_ed4, &k_ed6][i % 2];
        cx.matrix(key, true, &s, "beyond-8k-text");
        cx.matrix(key, false, &s, "beyond-8k-binary");
    }
    // wrappers that pull from the signing generator with their own buffer sizes: the last signature packet may straddle them
    {
        let step = if thorough { 1 } else { 5 };
        for n in (330..=520).step_by(step).chain((860..=1010).step_by(step)) { let key = [&k_ed4, &k_ed6, &k_rsa][n % 3]; cx.wrapped(key, n % 2 == 0, n, false, "wrapped-uncompressed-chunk512"); }
        for n in (7980..=8200).step_by(if thorough { 1 } else { 9 }) { let key = [&k_ed4, &k_ed6][n % 2]; cx.wrapped(key, n % 3 == 0, n, true, "wrapped-seipd1"); }
    }
    // caller-chosen hash algorithms (other than the key's preferred one): v6 salts follow the hash actually used
    for (ki, key) in [&k_ed4, &k_ed6, &k_ec, &k_rsa, &k_448].into_iter().enumerate() {
        for hash in [HashAlgorithm::Sha256, HashAlgorithm::Sha384, HashAlgorithm::Sha512, HashAlgorithm::Sha224, HashAlgorithm::Sha3_256, HashAlgorithm::Sha3_512] {
            if ki == 3 && !thorough && !matches!(hash, HashAlgorithm::Sha512 | HashAlgorithm::Sha3_512) { continue; }
            for text in [false, true] {
                cx.matrix_h(key, text, b"hash sweep\r\nline\n", &format!("hash-sweep-{}", u8::from(hash)), hash, true);
            }
        }
    }
    // several signers
    for text in [false, true] {
        for p in [&b"abc\n"[..], b"", b"x\r\ny\n"] {
            cx.multi(&[&k_ed4, &k_ec], text, p, "multi-2");
            cx.multi(&[&k_ed4, &k_ec, &k_rsa], text, p, "multi-3");
            cx.multi(&[&k_ed6, &k_448], text, p, "multi-2-v6");
            cx.multi(&[&k_ed4, &k_ed6], text, p, "multi-mixed-v4-v6");
            cx.multi(&[&k_ed6, &k_ed4], text, p, "multi-mixed-v6-v4");
            cx.multi(&[&k_ed6, &k_ec, &k_448], text, p, "multi-mixed-v6-v4-v6");
        }
    }
    cx.out.finish();
    let _ = std::io::empty().read(&mut []);
}
