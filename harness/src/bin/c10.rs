//! C10: ASCII armor round trip, checksum, tolerant reading.
use std::collections::BTreeMap;

use pgp::armor::{self, ArmorCrc24Status, BlockType, Dearmor, DearmorOptions, PKCS1Type};
use vh::*;

/// data plus a write pattern: the pieces it is written in and whether the
/// writer is flushed after each piece (0 never, 1 after every piece, 2 after the first)
struct Src(Vec<u8>, u64);
impl pgp::ser::Serialize for Src {
    fn to_writer<W: std::io::Write>(&self, w: &mut W) -> pgp::errors::Result<()> {
        // deliver in uneven pieces, as real packet serialisers do
        let mut pos = 0;
        let mut step = (self.1 / 3 % 11) as usize + 1;
        let flush_mode = self.1 % 3;
        let mut first = true;
        while pos < self.0.len() {
            let e = (pos + step).min(self.0.len());
            w.write_all(&self.0[pos..e])?;
            if flush_mode == 1 || (flush_mode == 2 && first) { w.flush()?; }
            first = false;
            pos = e;
            step = step * 3 % 97 + 1;
        }
        if flush_mode != 0 { w.flush()?; }
        Ok(())
    }
    fn write_len(&self) -> usize { self.0.len() }
}

#[derive(Clone, Copy, PartialEq, Debug)]
enum T { Fixed(u8), Mp(usize, usize) }

fn to_bt(t: T) -> BlockType {
    match t {
        T::Fixed(0) => BlockType::PublicKey, T::Fixed(1) => BlockType::PrivateKey,
        T::Fixed(3) => BlockType::Message, T::Fixed(4) => BlockType::Signature, T::Fixed(5) => BlockType::File,
        T::Fixed(6) => BlockType::CleartextMessage,
        T::Fixed(7) => BlockType::PublicKeyPKCS1(PKCS1Type::RSA), T::Fixed(8) => BlockType::PublicKeyPKCS1(PKCS1Type::DSA),
        T::Fixed(9) => BlockType::PublicKeyPKCS1(PKCS1Type::EC), T::Fixed(10) => BlockType::PublicKeyPKCS8,
        T::Fixed(11) => BlockType::PublicKeyOpenssh,
        T::Fixed(12) => BlockType::PrivateKeyPKCS1(PKCS1Type::RSA), T::Fixed(13) => BlockType::PrivateKeyPKCS1(PKCS1Type::DSA),
        T::Fixed(14) => BlockType::PrivateKeyPKCS1(PKCS1Type::EC), T::Fixed(15) => BlockType::PrivateKeyPKCS8,
        T::Fixed(_) => BlockType::PrivateKeyOpenssh,
        T::Mp(x, y) => BlockType::MultiPartMessage(x, y),
    }
}
fn show_bt(b: BlockType) -> String {
    match b {
        BlockType::PublicKey => "t0".into(), BlockType::PrivateKey => "t1".into(),
        BlockType::MultiPartMessage(x, y) => format!("mp:{x}:{y}"),
        BlockType::Message => "t3".into(), BlockType::Signature => "t4".into(), BlockType::File => "t5".into(),
        BlockType::CleartextMessage => "t6".into(),
        BlockType::PublicKeyPKCS1(PKCS1Type::RSA) => "t7".into(), BlockType::PublicKeyPKCS1(PKCS1Type::DSA) => "t8".into(),
        BlockType::PublicKeyPKCS1(PKCS1Type::EC) => "t9".into(), BlockType::PublicKeyPKCS8 => "t10".into(),
        BlockType::PublicKeyOpenssh => "t11".into(),
        BlockType::PrivateKeyPKCS1(PKCS1Type::RSA) => "t12".into(), BlockType::PrivateKeyPKCS1(PKCS1Type::DSA) => "t13".into(),
        BlockType::PrivateKeyPKCS1(PKCS1Type::EC) => "t14".into(), BlockType::PrivateKeyPKCS8 => "t15".into(),
        BlockType::PrivateKeyOpenssh => "t16".into(),
    }
}
fn show_t(t: T) -> String { show_bt(to_bt(t)) }

type H = BTreeMap<String, Vec<String>>;
fn show_h(h: &H) -> String {
    let mut v = Vec::new();
    for (k, vals) in h { for x in vals { v.push(format!("{}:{}", hx(k.as_bytes()), hx(x.as_bytes()))); } }
    if v.is_empty() { "_".into() } else { v.join(",") }
}

fn lib_armor(t: T, h: &H, data: &[u8], ck: bool, pattern: u64) -> Result<Vec<u8>, String> {
    guarded(|| {
        let mut out = Vec::new();
        armor::write(&Src(data.to_vec(), pattern), to_bt(t), &mut out, if h.is_empty() { None } else { Some(h) }, ck).map(|_| out).map_err(|e| e.to_string())
    }).and_then(|r| r)
}

fn lib_dearmor(input: &[u8], check: bool, src: &[usize], reqs: &[usize]) -> String {
    let r = guarded(|| -> Result<String, String> {
        let opt = if check { DearmorOptions::new().enable_crc24_check() } else { DearmorOptions::new() };
        let mut d = Dearmor::with_options(SchedBufReader::new(input.to_vec(), src.to_vec()), opt);
        // half of the schedules also read into an empty buffer before every read (asks for nothing, must change nothing)
        let (data, res) = if reqs.iter().sum::<usize>() % 2 == 0 { consume_read_with_empty(&mut d, reqs) } else { consume_read(&mut d, reqs) };
        res?;
        let typ = d.typ.ok_or("no type")?;
        let crc = match d.crc24_status() {
            ArmorCrc24Status::NoCrc24 => "none".to_string(),
            ArmorCrc24Status::CheckedOk { crc } => format!("ok:{crc}"),
            ArmorCrc24Status::CheckedInvalid { .. } => "invalid".to_string(),
            ArmorCrc24Status::Unchecked { footer_crc } => format!("unchecked:{footer_crc}"),
        };
        Ok(format!("OK {} {} {} {}", show_bt(typ), show_h(&d.headers), hx(&data), crc))
    });
    match r { Ok(Ok(s)) => s, Ok(Err(_)) => "ERR".into(), Err(p) => p }
}

struct Ctx { out: Out, rng: Rng }

impl Ctx {
    fn sched(&mut self) -> (Vec<usize>, Vec<usize>) {
        let src = match self.rng.below(6) {
            0 => vec![], 1 => vec![1], 2 => vec![self.rng.range(1, 200) as usize], 3 => vec![1023, 1, 2],
            4 => vec![767, 1, 1], _ => vec![self.rng.range(1, 5) as usize, self.rng.range(1, 1100) as usize],
        };
        let reqs = match self.rng.below(4) { 0 => vec![], 1 => vec![1], 2 => vec![768], _ => vec![self.rng.range(1, 2000) as usize] };
        (src, reqs)
    }
    /// writer = model; then every tolerated variant through the reader
    fn roundtrip(&mut self, t: T, h: &H, data: &[u8], ck: bool, cls: &str) {
        let pattern = self.rng.next();
        let a = match lib_armor(t, h, data, ck, pattern) { Ok(a) => a, Err(e) => { self.out.case("armor", &[show_t(t), show_h(h), hx(data), (ck as u8).to_string()], &[], &e, Some(false), cls); return; } };
        // lines: at most 64 characters, crc correct: judged by the model's armor
        self.out.case("armor", &[show_t(t), show_h(h), hx(data), (ck as u8).to_string()],
            &["armor".into(), show_t(t), show_h(h), hx(data), (ck as u8).to_string(), pattern.to_string()], &hx(&a), Some(body_lines_ok(&a, ck)),
            &format!("{cls}-w{}", pattern % 3));
        let want = |crc: &str| format!("OK {} {} {} {}", show_t(t), show_h(h), hx(data), crc);
        for check in [false, true] {
            let (src, reqs) = self.sched();
            let imp = lib_dearmor(&a, check, &src, &reqs);
            let pred = imp.starts_with(&want("")[..want("").len() - 1]) ;
            self.out.case("dearmor", &[(check as u8).to_string(), hx(&a)],
                &["dearmor".into(), (check as u8).to_string(), hx(&a), nums(&src), nums(&reqs)], &imp, Some(pred),
                &format!("{cls}{}", if check { "-crccheck" } else { "" }));
        }
        // variants
        let text = a.clone();
        let mut variants: Vec<(&str, Vec<u8>)> = Vec::new();
        variants.push(("crlf", text.iter().flat_map(|&b| if b == b'\n' { vec![b'\r', b'\n'] } else { vec![b] }).collect()));
        let mut lead = b"some leading text\nmore -- text - here\n\n".to_vec(); lead.extend_from_slice(&text);
        variants.push(("leading", lead));
        variants.push(("nofinalnl", text[..text.len() - 1].to_vec()));
        // whitespace on the blank line after the headers
        if let Some(p) = find(&text, b"\n\n") {
            let mut v = text[..p + 1].to_vec(); v.extend_from_slice(b" \t \n"); v.extend_from_slice(&text[p + 2..]);
            variants.push(("blankws", v));
            // extra empty lines inside the body
            let body_start = p + 2;
            let mut v = text[..body_start].to_vec();
            let mut col = 0;
            for &b in &text[body_start..] { v.push(b); if b == b'\n' { col += 1; if col % 2 == 1 { v.push(b'\n'); } } }
            variants.push(("bodyblank", v));
        }
        // empty lines between the last line of the block body (the checksum line, if any) and the END line
        if let Some(p) = rfind(&text, b"\n-----END") {
            for (name, ins) in [("blank-before-end", &b"\n"[..]), ("two-blanks-before-end", b"\n\n"), ("crlf-blank-before-end", b"\r\n")] {
                let mut v = text[..p + 1].to_vec(); v.extend_from_slice(ins); v.extend_from_slice(&text[p + 1..]);
                variants.push((name, v));
            }
        }
        for (name, v) in variants {
            let (src, reqs) = self.sched();
            let check = self.rng.chance(1, 4);
            let imp = lib_dearmor(&v, check, &src, &reqs);
            let w = want("");
            let pred = imp.starts_with(&w[..w.len() - 1]);
            self.out.case("dearmor", &[(check as u8).to_string(), hx(&v)],
                &["dearmor".into(), (check as u8).to_string(), hx(&v), nums(&src), nums(&reqs)], &imp, Some(pred),
                &format!("{cls}-{name}{}", if check { "-crccheck" } else { "" }));
        }
        // a wrong checksum: accepted unchecked, rejected when checking
        if ck {
            if let Some(p) = rfind(&text, b"\n=") {
                let mut v = text.clone();
                v[p + 2] = if v[p + 2] == b'A' { b'B' } else { b'A' };
                for check in [false, true] {
                    let (src, reqs) = self.sched();
                    let imp = lib_dearmor(&v, check, &src, &reqs);
                    let pred = if check { imp == "ERR" } else { imp.starts_with("OK") && imp.contains("unchecked") };
                    self.out.case("dearmor", &[(check as u8).to_string(), hx(&v)],
                        &["dearmor".into(), (check as u8).to_string(), hx(&v), nums(&src), nums(&reqs)], &imp, Some(pred),
                        &format!("{cls}-badcrc{}", if check { "-crccheck" } else { "" }));
                }
            }
        }
    }
    fn hostile(&mut self, v: &[u8], cls: &str) {
        let (src, reqs) = self.sched();
        let check = self.rng.chance(1, 2);
        let imp = lib_dearmor(v, check, &src, &reqs);
        self.out.case("", &[], &["dearmor".into(), (check as u8).to_string(), hx(v), nums(&src), nums(&reqs)],
            if imp.starts_with("PANIC") { &imp } else { "no-panic" }, Some(!imp.starts_with("PANIC")), cls);
    }
}

/// the emitted body: lines of at most 64 base64 characters, all but the last
/// exactly 64, none empty; then "=XXXX" when a checksum was asked for
fn body_lines_ok(a: &[u8], ck: bool) -> bool {
    let Ok(text) = std::str::from_utf8(a) else { return false; };
    let Some(p) = text.find("\n\n") else { return false; };
    let mut lines: Vec<&str> = text[p + 2..].split('\n').collect();
    if lines.pop() != Some("") { return false; }
    if !lines.pop().map(|l| l.starts_with("-----END ")).unwrap_or(false) { return false; }
    if ck {
        let Some(c) = lines.pop() else { return false; };
        if c.len() != 5 || !c.starts_with('=') { return false; }
    }
    let n = lines.len();
    lines.iter().enumerate().all(|(i, l)| {
        !l.is_empty() && l.len() <= 64 && (i + 1 == n || l.len() == 64)
            && l.bytes().all(|b| b.is_ascii_alphanumeric() || b == b'+' || b == b'/' || b == b'=')
    })
}

fn find(h: &[u8], n: &[u8]) -> Option<usize> { h.windows(n.len()).position(|w| w == n) }
fn rfind(h: &[u8], n: &[u8]) -> Option<usize> { h.windows(n.len()).rposition(|w| w == n) }

fn gen_headers(rng: &mut Rng) -> H {
    let keys = ["Version", "Comment", "MessageID", "Charset", "Hash", "k", "X-a:b", "Key With Space"];
    let vals = ["", "x", "GnuPG v2", "foo: bar", "ends with colon:", ":", " lead", "h\u{e9}llo w\u{f6}rld", "a  b ", "https://example.org/x?y=1", "-----"];
    let mut h = H::new();
    let n = match rng.below(5) { 0 | 1 => 0, 2 => 1, 3 => 2, _ => 4 };
    for _ in 0..n {
        let k = rng.pick(&keys).to_string();
        let e = h.entry(k).or_default();
        let m = rng.range(1, 2);
        for _ in 0..m { e.push(rng.pick(&vals).to_string()); }
    }
    h
}

fn main() {
    quiet_panics();
    let cli = cli();
    let mut cx = Ctx { out: Out::new(), rng: Rng::new(cli.seed) };
    if cli.mode == "replay" {
        let a = &cli.rest;
        if a[0] == "armor" {
            let t = if let Some(r) = a[1].strip_prefix("mp:") { let v: Vec<usize> = r.split(':').map(|x| x.parse().unwrap()).collect(); T::Mp(v[0], v[1]) } else { T::Fixed(a[1][1..].parse().unwrap()) };
            let mut h = H::new();
            if a[2] != "_" { for kv in a[2].split(',') { let (k, v) = kv.split_once(':').unwrap(); h.entry(String::from_utf8(unhx(k)).unwrap()).or_default().push(String::from_utf8(unhx(v)).unwrap()); } }
            let ck = a[4] == "1";
            let r = lib_armor(t, &h, &unhx(&a[3]), ck, a.get(5).map(|s| s.parse().unwrap()).unwrap_or(0));
            match r {
                Ok(out) => cx.out.case("armor", &a[1..5].to_vec(), a, &hx(&out), Some(body_lines_ok(&out, ck)), "replay"),
                Err(e) => cx.out.case("armor", &a[1..5].to_vec(), a, &e, Some(false), "replay"),
            }
        }
        if a[0] == "dearmor" {
            let p = |s: &str| -> Vec<usize> { if s == "_" { vec![] } else { s.split(',').map(|x| x.parse().unwrap()).collect() } };
            let imp = lib_dearmor(&unhx(&a[2]), a[1] == "1", &p(a.get(3).map(|s| s.as_str()).unwrap_or("_")), &p(a.get(4).map(|s| s.as_str()).unwrap_or("_")));
            cx.out.case("dearmor", &[a[1].clone(), a[2].clone()], a, &imp, Some(!imp.starts_with("PANIC")), "replay");
        }
        cx.out.finish();
        return;
    }
    let thorough = cli.tier == "thorough";
    let empty = H::new();
    // every length 0..L, plain message type, both checksum settings
    let l_all = if thorough { 4096 } else { 400 };
    for n in 0..=l_all {
        let data = cx.rng.bytes(n);
        let ck = n % 2 == 0;
        cx.roundtrip(T::Fixed(3), &empty, &data, ck, "len-sweep");
    }
    // boundary calculus: multiples of 3, 48 (one line), 768, 1024 +- 2
    for base in [48usize, 96, 768, 1024, 1536, 3072, 8192] {
        for k in 1..=2 {
            // (down to -6: with a checksum line, the base64 decoder's 1024-character buffer ends inside "=XXXX" for payloads of
            //  763..765 + 768k octets)
            for d in -6i64..=2 {
                let n = (base * k) as i64 + d;
                let data = cx.rng.bytes(n as usize);
                cx.roundtrip(T::Fixed(4), &empty, &data, true, "len-boundary");
            }
        }
    }
    // all block types x header maps
    let reps = if thorough { 40 } else { 6 };
    for r in 0..reps {
        for ti in 0..=16u8 {
            if ti == 2 || ti == 6 { continue; }
            let h = gen_headers(&mut cx.rng);
            let n = cx.rng.range(0, 200) as usize;
            let data = cx.rng.bytes(n);
            cx.roundtrip(T::Fixed(ti), &h, &data, r % 2 == 0, "types-headers");
        }
        let x = *cx.rng.pick(&[0usize, 1, 2, 9, 10, 99, 12345]);
        let y = *cx.rng.pick(&[1usize, 2, 10, 100, 65536]);
        let h = gen_headers(&mut cx.rng);
        let data = cx.rng.bytes(50);
        cx.roundtrip(T::Mp(x, y), &h, &data, true, "multipart");
    }
    // special data: all zero / all 0xff / patterns that produce '+' '/' runs
    for pat in [0u8, 0xff, 0xfb, 0x3e] {
        for n in [1usize, 2, 3, 47, 48, 49] {
            cx.roundtrip(T::Fixed(3), &empty, &vec![pat; n], true, "patterns");
        }
    }
    // large
    let big: &[usize] = if thorough { &[100_000, 1 << 20] } else { &[70_000] };
    for &n in big {
        let data = cx.rng.bytes(n);
        cx.roundtrip(T::Fixed(3), &empty, &data, true, "large");
    }
    // hostile: truncations and mutations of a valid block (no panic)
    let data = cx.rng.bytes(100);
    let mut h = H::new(); h.insert("Comment".into(), vec!["x".into()]);
    let a = lib_armor(T::Fixed(3), &h, &data, true, 0).unwrap();
    for cut in 0..a.len() { cx.hostile(&a[..cut], "truncated"); }
    let nmut = if thorough { 20000 } else { 2000 };
    for _ in 0..nmut {
        let mut v = a.clone();
        let k = cx.rng.range(1, 3);
        for _ in 0..k {
            let i = cx.rng.below(v.len() as u64) as usize;
            match cx.rng.below(4) {
                0 => v[i] = cx.rng.next() as u8,
                1 => { v.remove(i); }
                2 => v.insert(i, *cx.rng.pick(b"=-\n\r: Aa0")),
                _ => v[i] = *cx.rng.pick(b"=-\n\r: "),
            }
            if v.is_empty() { break; }
        }
        cx.hostile(&v, "mutated");
    }
    cx.out.finish();
}
