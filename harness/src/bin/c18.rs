//! C18: recipients -- every intended recipient can decrypt, nobody else gets plaintext.
use std::io::Read;

use pgp::composed::{decrypt_session_key_with_password, DecryptionOptions, EncryptionCaps, KeyType, Message, MessageBuilder, PlainSessionKey, RawSessionKey, SecretKeyParamsBuilder, SignedPublicKey, SignedSecretKey, SubkeyParamsBuilder, TheRing};
use pgp::crypto::aead::{AeadAlgorithm, ChunkSize};
use pgp::crypto::ecc_curve::ECCCurve;
use pgp::crypto::hash::HashAlgorithm;
use pgp::crypto::sym::SymmetricKeyAlgorithm;
use pgp::packet::{Packet, PacketParser, PublicKeyEncryptedSessionKey as Pk, SymKeyEncryptedSessionKey as Sk};
use pgp::ser::Serialize;
use pgp::types::{KeyDetails, KeyId, KeyVersion, Password, StringToKey};
use vh::*;

struct Ctx { out: Out, rng: Rng }

fn enc_key(ver: KeyVersion, primary: KeyType, sub: KeyType, seed: u64) -> SignedSecretKey {
    let mut s = SubkeyParamsBuilder::default();
    s.version(ver).key_type(sub).can_encrypt(EncryptionCaps::All);
    let mut p = SecretKeyParamsBuilder::default();
    p.version(ver).key_type(primary).can_certify(true).can_sign(true).primary_user_id(format!("c18-{seed} <c18@example.org>")).subkeys(vec![s.build().expect("sub")]);
    p.build().expect("params").generate(Rng::new(seed)).expect("keygen")
}

/// a key with several subkeys: `subs` = (type, signing?) in order
fn multi_key(ver: KeyVersion, primary: KeyType, subs: Vec<(KeyType, bool)>, seed: u64) -> SignedSecretKey {
    let subs = subs.into_iter().map(|(kt, sign)| { let mut s = SubkeyParamsBuilder::default(); s.version(ver).key_type(kt); if sign { s.can_sign(true); } else { s.can_encrypt(EncryptionCaps::All); } s.build().expect("sub") }).collect::<Vec<_>>();
    let mut p = SecretKeyParamsBuilder::default();
    p.version(ver).key_type(primary).can_certify(true).can_sign(true).primary_user_id(format!("c18-{seed} <c18@example.org>")).subkeys(subs);
    p.build().expect("params").generate(Rng::new(seed)).expect("keygen")
}

/// `enc`: index of the subkey the test messages are encrypted to
struct PoolKey { name: String, sk: SignedSecretKey, pk: SignedPublicKey, locked_with: Option<String>, enc: usize }

/// one session-key packet of a test message
#[derive(Clone)]
enum E {
    /// encrypted to pool key `to` with session key `k`; the recipient field names `named` (None = wildcard)
    Pk { to: usize, named: Option<usize>, k: usize },
    /// encrypted with pool password `pw`
    Sk { pw: usize, k: usize },
}

fn main() {
    quiet_panics();
    let cli = cli();
    let mut cx = Ctx { out: Out::new(), rng: Rng::new(cli.seed) };
    if cli.mode == "replay" { cx.out.finish(); return; }
    let thorough = cli.tier == "thorough";
    // ---- pool
    let mut pool: Vec<PoolKey> = Vec::new();
    // mixed lock states: what matters is the state of the key packet that holds the decryption key (the subkey)
    {
        let mut k = enc_key(KeyVersion::V4, KeyType::Ed25519Legacy, KeyType::ECDH(ECCCurve::Curve25519Legacy), 191);
        let pkk = SignedPublicKey::from(k.clone());
        for s in k.secret_subkeys.iter_mut() { let _ = s.key.set_password(Rng::new(2), &Password::from("kp1")); }
        pool.push(PoolKey { name: "v4-primary-clear-subkey-locked".into(), sk: k, pk: pkk, locked_with: Some("kp1".into()), enc: 0 });
        let mut k = enc_key(KeyVersion::V6, KeyType::Ed25519, KeyType::X25519, 192);
        let pkk = SignedPublicKey::from(k.clone());
        let _ = k.primary_key.set_password(Rng::new(1), &Password::from("kp2"));
        pool.push(PoolKey { name: "v6-primary-locked-subkey-clear".into(), sk: k, pk: pkk, locked_with: None, enc: 0 });
        // several subkeys, the recipient subkey not the first one (signing subkey in front; a second encryption subkey)
        let k = multi_key(KeyVersion::V4, KeyType::Ed25519Legacy, vec![(KeyType::Ed25519Legacy, true), (KeyType::ECDH(ECCCurve::Curve25519Legacy), false)], 193);
        pool.push(PoolKey { name: "v4-sign-subkey-then-enc-subkey".into(), pk: SignedPublicKey::from(k.clone()), sk: k, locked_with: None, enc: 1 });
        let k = multi_key(KeyVersion::V6, KeyType::Ed25519, vec![(KeyType::X25519, false), (KeyType::X25519, false), (KeyType::X448, false)], 194);
        pool.push(PoolKey { name: "v6-three-enc-subkeys-second".into(), pk: SignedPublicKey::from(k.clone()), sk: k, locked_with: None, enc: 1 });
        let k = multi_key(KeyVersion::V4, KeyType::Ed25519, vec![(KeyType::X25519, false), (KeyType::X25519, false)], 195);
        pool.push(PoolKey { name: "v4-two-enc-subkeys-second".into(), pk: SignedPublicKey::from(k.clone()), sk: k, locked_with: None, enc: 1 });
    }
    let mut add = |name: &str, sk: SignedSecretKey, lock: Option<&str>| {
        let pk = SignedPublicKey::from(sk.clone());
        let mut sk = sk;
        if let Some(l) = lock {
            let pw = Password::from(l);
            let _ = sk.primary_key.set_password(Rng::new(1), &pw);
            for s in sk.secret_subkeys.iter_mut() { let _ = s.key.set_password(Rng::new(2), &pw); }
        }
        pool.push(PoolKey { name: name.into(), sk, pk, locked_with: lock.map(|s| s.to_string()), enc: 0 });
    };
    add("v4-cv25519-a", enc_key(KeyVersion::V4, KeyType::Ed25519Legacy, KeyType::ECDH(ECCCurve::Curve25519Legacy), 181), None);
    add("v4-cv25519-b", enc_key(KeyVersion::V4, KeyType::Ed25519Legacy, KeyType::ECDH(ECCCurve::Curve25519Legacy), 182), Some("kp1"));
    add("v4-p256", enc_key(KeyVersion::V4, KeyType::ECDSA(ECCCurve::P256), KeyType::ECDH(ECCCurve::P256), 183), None);
    add("v4-rsa", enc_key(KeyVersion::V4, KeyType::Rsa(2048), KeyType::Rsa(2048), 184), None);
    add("v4-x25519", enc_key(KeyVersion::V4, KeyType::Ed25519, KeyType::X25519, 185), None);
    add("v6-x25519-a", enc_key(KeyVersion::V6, KeyType::Ed25519, KeyType::X25519, 186), None);
    add("v6-x25519-b", enc_key(KeyVersion::V6, KeyType::Ed25519, KeyType::X25519, 187), Some("kp2"));
    add("v6-x448", enc_key(KeyVersion::V6, KeyType::Ed448, KeyType::X448, 188), None);
    let pws: Vec<&str> = vec!["alpha", "beta", "gamma", "delta"];
    let plain: Vec<u8> = b"C18 plaintext: for the recipients only".to_vec();
    let s2k = |i: u64| StringToKey::new_iterated(Rng::new(30 + i), HashAlgorithm::Sha256, 40);

    // ---- containers with known session keys
    struct Cont { v2: bool, sym: SymmetricKeyAlgorithm, bytes: Vec<u8>, k0: Vec<u8> }
    let mut conts: Vec<Cont> = Vec::new();
    for (v2, sym) in [(false, SymmetricKeyAlgorithm::AES128), (false, SymmetricKeyAlgorithm::AES256), (true, SymmetricKeyAlgorithm::AES128), (true, SymmetricKeyAlgorithm::AES256)] {
        let pw = Password::from("builder");
        let m = if v2 { let mut b = MessageBuilder::from_bytes("", plain.clone()).seipd_v2(Rng::new(1), sym, AeadAlgorithm::Ocb, ChunkSize::C64B); b.encrypt_with_password(Rng::new(3), s2k(0), &pw).unwrap(); b.to_vec(Rng::new(2)).unwrap() }
                else { let mut b = MessageBuilder::from_bytes("", plain.clone()).seipd_v1(Rng::new(1), sym); b.encrypt_with_password(s2k(0), &pw).unwrap(); b.to_vec(Rng::new(2)).unwrap() };
        let ps: Vec<Packet> = PacketParser::new(&m[..]).flatten().collect();
        let Some(Packet::SymKeyEncryptedSessionKey(sk)) = ps.first().cloned() else { continue; };
        let Ok(psk) = decrypt_session_key_with_password(&sk, &pw) else { continue; };
        let raw: Vec<u8> = match &psk { PlainSessionKey::V3_4 { key, .. } => key.as_ref().to_vec(), PlainSessionKey::V6 { key } => key.as_ref().to_vec(), PlainSessionKey::V5 { key } => key.as_ref().to_vec() };
        conts.push(Cont { v2, sym, bytes: ps.last().unwrap().to_bytes().unwrap(), k0: raw });
    }

    let ncases = if thorough { 1500 } else { 320 };

    // ---- RSA recipients: the encrypted session key is an MPI, so a value that begins with a zero octet is written shorter than
    //      the modulus (about 1 encryption in 256): searched for over the sender's randomness, then decrypted
    for pkx in pool.iter() {
        let sub = &pkx.pk.public_subkeys[pkx.enc].key;
        if sub.algorithm() != pgp::crypto::public_key::PublicKeyAlgorithm::RSA || pkx.locked_with.is_some() { continue; }
        let ssub = &pkx.sk.secret_subkeys[pkx.enc].key;
        let modlen = match sub.public_params() { pgp::types::PublicParams::RSA(p) => { use rsa::traits::PublicKeyParts; p.key.size() } _ => continue };
        let sk: Vec<u8> = (0..16u8).map(|i| i.wrapping_mul(11).wrapping_add(3)).collect();
        let raw: RawSessionKey = sk.clone().into();
        let mut short = 0; let mut full = 0;
        for seed in 0..6000u64 {
            if short >= 2 && full >= 2 { break; }
            let Ok(Ok(p)) = guarded(|| Pk::from_session_key_v3(Rng::new(7000 + seed), &raw, SymmetricKeyAlgorithm::AES128, sub)) else { continue; };
            let Ok(pgp::types::PkeskBytes::Rsa { mpi }) = p.values() else { continue; };
            let is_short = mpi.len() < modlen;
            if (is_short && short >= 2) || (!is_short && full >= 2) { continue; }
            if is_short { short += 1; } else { full += 1; }
            let got = guarded(|| { use pgp::types::DecryptionKey; ssub.decrypt(&Password::empty(), p.values().ok()?, pgp::types::EskType::V3_4).ok()?.ok() });
            let ok = matches!(&got, Ok(Some(PlainSessionKey::V3_4 { key, sym_alg })) if *sym_alg == SymmetricKeyAlgorithm::AES128 && key.as_ref() == &sk[..]);
            cx.out.case("", &[], &["rsa-short-ciphertext".into(), pkx.name.clone(), seed.to_string(), mpi.len().to_string(), modlen.to_string()], if ok { "session key recovered" } else { "session key NOT recovered" }, Some(ok), if is_short { "rsa-ciphertext-shorter-than-modulus" } else { "rsa-ciphertext-full-length" });
        }
        if short == 0 { cx.out.case("", &[], &["rsa-short-ciphertext".into(), pkx.name.clone()], "no short ciphertext among 6000 encryptions", Some(false), "rsa-ciphertext-search-failed"); }
    }

    for case in 0..ncases {
        let c = &conts[case % conts.len()];
        let k1: Vec<u8> = { let mut r = Rng::new(9000 + case as u64); r.bytes(c.k0.len()) };
        let keyof = |k: usize| -> RawSessionKey { if k == 0 { c.k0.clone().into() } else { k1.clone().into() } };
        // recipients compatible with the container: PKESK v3 -> v4 keys; PKESK v6 -> any key
        let elig: Vec<usize> = (0..pool.len()).filter(|&i| c.v2 || pool[i].sk.version() == KeyVersion::V4).collect();
        // the first cases are systematic: every pool key as the only recipient, named and anonymous, presented alone,
        // behind and in front of an unrelated key (its recipient subkey need not be its first subkey)
        let forced: Option<(usize, bool, u8)> = if case < 6 * pool.len() { let to = case / 6; if elig.contains(&to) { Some((to, case % 2 == 0, (case % 6 / 2) as u8)) } else { None } } else { None };
        let nk = if forced.is_some() { 1 } else { cx.rng.range(if case % 7 == 0 { 0 } else { 1 }, 4) as usize };
        let np = if forced.is_some() { 0 } else { cx.rng.range(if nk == 0 { 1 } else { 0 }, 3) as usize };
        let mut esks: Vec<E> = Vec::new();
        for _ in 0..nk {
            let to = match forced { Some((t, _, _)) => t, None => *cx.rng.pick(&elig) };
            let named = match forced { Some((_, anon, _)) => if anon { None } else { Some(to) }, None => match cx.rng.below(6) { 0 => None, 1 => Some(*cx.rng.pick(&elig)), _ => Some(to) } };
            esks.push(E::Pk { to, named, k: 0 });
        }
        for _ in 0..np { esks.push(E::Sk { pw: cx.rng.below(pws.len() as u64) as usize, k: 0 }); }
        // now and then a packet that opens to a different session key
        if case % 3 == 0 && forced.is_none() { if cx.rng.chance(1, 2) { let to = *cx.rng.pick(&elig); esks.push(E::Pk { to, named: Some(to), k: 1 }); } else { esks.push(E::Sk { pw: cx.rng.below(pws.len() as u64) as usize, k: 1 }); } }
        // order
        for i in (1..esks.len()).rev() { let j = cx.rng.below(i as u64 + 1) as usize; esks.swap(i, j); }
        // build the packets
        let mut msg = Vec::new();
        let mut ok = true;
        for (ei, e) in esks.iter().enumerate() {
            let b: Option<Vec<u8>> = match e {
                E::Pk { to, named, k } => {
                    let sub = &pool[*to].pk.public_subkeys[pool[*to].enc].key;
                    let p = if c.v2 { Pk::from_session_key_v6(Rng::new(100 + ei as u64 + case as u64), &keyof(*k), sub).ok() } else { Pk::from_session_key_v3(Rng::new(100 + ei as u64 + case as u64), &keyof(*k), c.sym, sub).ok() };
                    p.and_then(|p| {
                        // rewrite the recipient field
                        let p2 = match (p, named) {
                            (Pk::V3 { packet_header, pk_algo, values, .. }, Some(n)) => Pk::V3 { packet_header, id: pool[*n].pk.public_subkeys[pool[*n].enc].key.legacy_key_id(), pk_algo, values },
                            (Pk::V3 { packet_header, pk_algo, values, .. }, None) => Pk::V3 { packet_header, id: KeyId::from([0u8; 8]), pk_algo, values },
                            (Pk::V6 { pk_algo, values, .. }, named) => {
                                let fp = named.map(|n| pool[n].pk.public_subkeys[pool[n].enc].key.fingerprint());
                                let tmp = Pk::V6 { packet_header: pgp::packet::PacketHeader::new_fixed(pgp::types::Tag::PublicKeyEncryptedSessionKey, 0), fingerprint: fp.clone(), pk_algo, values: values.clone() };
                                let len = tmp.write_len();
                                Pk::V6 { packet_header: pgp::packet::PacketHeader::new_fixed(pgp::types::Tag::PublicKeyEncryptedSessionKey, len as u32), fingerprint: fp, pk_algo, values }
                            }
                            (other, _) => other,
                        };
                        Packet::from(p2).to_bytes().ok()
                    })
                }
                E::Sk { pw, k } => {
                    // v4: the packet's own cipher wraps the session key and need not be the message cipher (RFC 9580 5.3.1):
                    // now and then another AES size, written by hand (the library's encrypt_v4 always uses the message cipher)
                    let wrap = [c.sym, SymmetricKeyAlgorithm::AES128, SymmetricKeyAlgorithm::AES256, SymmetricKeyAlgorithm::AES192][(case + ei) % 4];
                    let p = if c.v2 { Sk::encrypt_v6(Rng::new(200 + ei as u64), &Password::from(pws[*pw]), &keyof(*k), s2k(ei as u64), c.sym, AeadAlgorithm::Ocb).ok() }
                        else if wrap == c.sym { Sk::encrypt_v4(&Password::from(pws[*pw]), &keyof(*k), s2k(ei as u64), c.sym).ok() }
                        else {
                            let sk2 = s2k(ei as u64);
                            (|| -> Option<Sk> {
                                let key = sk2.derive_key(pws[*pw].as_bytes(), wrap.key_size()).ok()?;
                                let mut d = vec![u8::from(c.sym)]; d.extend_from_slice(keyof(*k).as_ref());
                                wrap.encrypt_with_iv_regular(key.as_ref(), &vec![0u8; wrap.block_size()], &mut d).ok()?;
                                Some(Sk::V4 { packet_header: pgp::packet::PacketHeader::new_fixed(pgp::types::Tag::SymKeyEncryptedSessionKey, (2 + pgp::ser::Serialize::write_len(&sk2) + d.len()) as u32), sym_algorithm: wrap, s2k: sk2.clone(), encrypted_key: d.into() })
                            })()
                        };
                    p.and_then(|p| Packet::from(p).to_bytes().ok())
                }
            };
            match b { Some(b) => msg.extend(b), None => { ok = false; break; } }
        }
        if !ok { continue; }
        msg.extend(&c.bytes);
        // the ring
        let present_keys: Vec<usize> = match forced {
            Some((to, _, how)) => { let other = (to + 3) % pool.len(); match how { 0 => vec![to], 1 => vec![other, to], _ => vec![to, other] } }
            None => (0..pool.len()).filter(|_| cx.rng.chance(2, 5)).collect(),
        };
        let mut present_pws: Vec<usize> = (0..pws.len()).filter(|_| cx.rng.chance(2, 5)).collect();
        // SKESK v4 has no integrity: a password that is not a recipient may produce a plausible-looking key; only the
        // error direction is judged for those (see below)
        let recipient_pws: Vec<usize> = esks.iter().filter_map(|e| if let E::Sk { pw, .. } = e { Some(*pw) } else { None }).collect();
        let has_foreign_pw = present_pws.iter().any(|p| !recipient_pws.contains(p)) && esks.iter().any(|e| matches!(e, E::Sk { .. }));
        if !c.v2 && has_foreign_pw && case % 2 == 0 { present_pws.retain(|p| recipient_pws.contains(p)); }
        let judged_by_model = c.v2 || !(present_pws.iter().any(|p| !recipient_pws.contains(p)) && esks.iter().any(|e| matches!(e, E::Sk { .. })));
        let key_pws_choice = cx.rng.below(4);
        let key_pw_strs: Vec<&str> = match key_pws_choice { 0 => vec![], 1 => vec!["wrong"], 2 => vec!["wrong", "kp1", "kp2"], _ => vec!["kp2", "kp1"] };
        let explicit: Vec<usize> = match cx.rng.below(8) { 0 => vec![0], 1 => vec![1], 2 => vec![0, 1], 3 => vec![1, 0], _ => vec![] };
        let abort_early = cx.rng.chance(1, 3);
        // ---- library
        let r = guarded(|| -> String {
            let Ok(m) = Message::from_bytes(&msg[..]) else { return "PARSE".into(); };
            let kp: Vec<Password> = std::iter::once(Password::empty()).chain(key_pw_strs.iter().map(|s| Password::from(*s))).collect();
            let mp: Vec<Password> = present_pws.iter().map(|p| Password::from(pws[*p])).collect();
            let sks: Vec<PlainSessionKey> = explicit.iter().map(|k| if c.v2 { PlainSessionKey::V6 { key: keyof(*k) } } else { PlainSessionKey::V3_4 { sym_alg: c.sym, key: keyof(*k) } }).collect();
            let ring = TheRing { secret_keys: present_keys.iter().map(|i| &pool[*i].sk).collect(), key_passwords: kp.iter().collect(), message_password: mp.iter().collect(), session_keys: sks, decrypt_options: DecryptionOptions::new() };
            match m.decrypt_the_ring(ring, abort_early) {
                Ok((mut dm, _)) => { let mut o = Vec::new(); match dm.read_to_end(&mut o) { Ok(_) if o == plain => "F0".into(), Ok(_) => "WRONG-PLAINTEXT".into(), Err(_) => "Fx".into() } }
                Err(pgp::errors::Error::MissingKey) => "M".into(),
                // (the wording of the error only feeds the coverage class, never the verdict)
                Err(e) => { let s = e.to_string(); if s.contains("inconsistent session keys") { "Fx conflict".into() } else { "Fx".into() } }
            }
        });
        let imp = match r { Ok(s) => s, Err(p) => p };
        // ---- the convenience entry points are the ring with one kind of secret (first match wins): decrypt_with_keys / decrypt,
        //      decrypt_with_password, decrypt_with_session_key must end the way the ring with just those secrets ends
        if case % 2 == 0 || forced.is_some() {
            let outcome = |r: pgp::errors::Result<Message>| -> String { match r {
                Ok(mut dm) => { let mut o = Vec::new(); match dm.read_to_end(&mut o) { Ok(_) if o == plain => "F0".into(), Ok(_) => "WRONG-PLAINTEXT".into(), Err(_) => "Fx".into() } }
                Err(pgp::errors::Error::MissingKey) => "M".into(), Err(_) => "Fx".into() } };
            let kp: Vec<Password> = std::iter::once(Password::empty()).chain(key_pw_strs.iter().map(|s| Password::from(*s))).collect();
            let mut pairs: Vec<(String, String, String)> = Vec::new();
            if !present_keys.is_empty() {
                let keys: Vec<&SignedSecretKey> = present_keys.iter().map(|i| &pool[*i].sk).collect();
                let a = guarded(|| outcome(Message::from_bytes(&msg[..]).and_then(|m| m.decrypt_with_keys(kp.iter().collect(), keys.clone())))).unwrap_or_else(|p| p);
                let b = guarded(|| outcome(Message::from_bytes(&msg[..]).and_then(|m| m.decrypt_the_ring(TheRing { secret_keys: keys.clone(), key_passwords: kp.iter().collect(), message_password: vec![], session_keys: vec![], decrypt_options: DecryptionOptions::new() }, true).map(|x| x.0)))).unwrap_or_else(|p| p);
                pairs.push(("decrypt_with_keys".into(), a, b));
                let k0 = keys[0];
                for pw in kp.iter().take(2) {
                    let a = guarded(|| outcome(Message::from_bytes(&msg[..]).and_then(|m| m.decrypt(pw, k0)))).unwrap_or_else(|p| p);
                    let b = guarded(|| outcome(Message::from_bytes(&msg[..]).and_then(|m| m.decrypt_the_ring(TheRing { secret_keys: vec![k0], key_passwords: vec![pw], message_password: vec![], session_keys: vec![], decrypt_options: DecryptionOptions::new() }, true).map(|x| x.0)))).unwrap_or_else(|p| p);
                    pairs.push(("decrypt".into(), a, b));
                }
            }
            for p in present_pws.iter().take(2) {
                let pw = Password::from(pws[*p]);
                let a = guarded(|| outcome(Message::from_bytes(&msg[..]).and_then(|m| m.decrypt_with_password(&pw)))).unwrap_or_else(|p| p);
                let b = guarded(|| outcome(Message::from_bytes(&msg[..]).and_then(|m| m.decrypt_the_ring(TheRing { secret_keys: vec![], key_passwords: vec![], message_password: vec![&pw], session_keys: vec![], decrypt_options: DecryptionOptions::new() }, true).map(|x| x.0)))).unwrap_or_else(|p| p);
                pairs.push(("decrypt_with_password".into(), a, b));
            }
            for k in explicit.iter().take(2) {
                let mk = || if c.v2 { PlainSessionKey::V6 { key: keyof(*k) } } else { PlainSessionKey::V3_4 { sym_alg: c.sym, key: keyof(*k) } };
                let a = guarded(|| outcome(Message::from_bytes(&msg[..]).and_then(|m| m.decrypt_with_session_key(mk())))).unwrap_or_else(|p| p);
                let b = guarded(|| outcome(Message::from_bytes(&msg[..]).and_then(|m| m.decrypt_the_ring(TheRing { secret_keys: vec![], key_passwords: vec![], message_password: vec![], session_keys: vec![mk()], decrypt_options: DecryptionOptions::new() }, true).map(|x| x.0)))).unwrap_or_else(|p| p);
                // a session key in hand opens the container exactly when it is the container's key
                let direct = if *k == 0 { "F0" } else { "Fx" };
                pairs.push(("decrypt_with_session_key".into(), a.clone(), b));
                pairs.push(("decrypt_with_session_key-direct".into(), a, direct.into()));
            }
            for (what, a, b) in pairs {
                cx.out.case("", &[], &["convenience".into(), case.to_string(), what.clone(), hx(&msg[..msg.len().min(2500)])], &format!("{what}={a} ring={b}"), Some(a == b && a != "WRONG-PLAINTEXT" && !a.starts_with("PANIC")), &format!("convenience-{}", what));
            }
        }
        // SKESK v4 has no integrity: does a presented password open a packet that was NOT made for it to a plausible session key
        // other than the message's?  (established here from the packets themselves, never from the wording of an error; this is
        // the recorded finding skesk4-other-password-plausible-key)
        let skesk4_garbage = !c.v2 && {
            let sks: Vec<(usize, Sk)> = { let mut i = 0usize; let mut v = Vec::new(); for e in &esks { if let E::Sk { .. } = e { i += 1; } let _ = i; } let mut idx = 0usize;
                for p in PacketParser::new(&msg[..]).flatten().take_while(|p| matches!(p, Packet::SymKeyEncryptedSessionKey(_) | Packet::PublicKeyEncryptedSessionKey(_))) { if let Packet::SymKeyEncryptedSessionKey(s) = p { v.push((idx, s)); idx += 1; } } v };
            let made_for: Vec<usize> = esks.iter().filter_map(|e| if let E::Sk { pw, .. } = e { Some(*pw) } else { None }).collect();
            present_pws.iter().any(|p| sks.iter().any(|(i, sk)| made_for.get(*i).map(|q| q != p).unwrap_or(false)
                && guarded(|| decrypt_session_key_with_password(sk, &Password::from(pws[*p])).ok()).ok().flatten().map(|k| !matches!(&k, PlainSessionKey::V3_4 { key, .. } if *key == keyof(0))).unwrap_or(false)))
        };
        let said_conflict = imp == "Fx conflict";
        let imp = if said_conflict { "Fx".to_string() } else { imp };
        // ---- the oracle table for the model
        let openable = |i: usize| -> bool { match &pool[i].locked_with { None => true, Some(l) => key_pw_strs.contains(&l.as_str()) } };
        let pk_spec: Vec<String> = esks.iter().filter_map(|e| if let E::Pk { to, named, k } = e {
            let tbl: Vec<String> = present_keys.iter().filter(|j| **j == *to && openable(**j)).map(|j| format!("{}={}", j + 1, k)).collect();
            Some(format!("{}/{}", named.map(|n| (n + 1).to_string()).unwrap_or("w".into()), if tbl.is_empty() { "-".to_string() } else { tbl.join(";") }))
        } else { None }).collect();
        let sk_spec: Vec<String> = esks.iter().filter_map(|e| if let E::Sk { pw, k } = e {
            let tbl: Vec<String> = present_pws.iter().filter(|p| **p == *pw).map(|p| format!("{}={}", p + 1, k)).collect();
            Some(if tbl.is_empty() { "-".to_string() } else { tbl.join(";") })
        } else { None }).collect();
        let lst = |v: Vec<String>| if v.is_empty() { "_".to_string() } else { v.join(",") };
        let args = vec![(abort_early as u8).to_string(), lst(pk_spec), lst(sk_spec), lst(present_keys.iter().map(|j| (j + 1).to_string()).collect()), lst(present_pws.iter().map(|p| (p + 1).to_string()).collect()), lst(explicit.iter().map(|k| k.to_string()).collect())];
        let names: Vec<&str> = present_keys.iter().map(|i| pool[*i].name.as_str()).collect();
        let rp = vec!["ring".to_string(), case.to_string(), hx(&msg[..msg.len().min(2500)]), names.join("+"), format!("{:?}", key_pw_strs)];
        let never_wrong_plaintext = imp != "WRONG-PLAINTEXT" && !imp.starts_with("PANIC");
        if judged_by_model && skesk4_garbage && imp == "Fx" {
            // the recipient's password was given, and decryption is refused because the same password also "opens" another
            // recipient's unauthenticated packet to garbage
            cx.out.case("", &[], &rp, "SKESK4-PASSWORD-OPENS-OTHER-PACKET: decryption refused although a recipient's password was presented", Some(false), "seipd1-skesk4-garbage-key");
        } else if judged_by_model {
            cx.out.case("decide", &args, &rp, &imp, Some(never_wrong_plaintext), &format!("{}-{}{}", if c.v2 { "seipd2" } else { "seipd1" }, if abort_early { "abort-early" } else { "cross-check" }, if said_conflict { "-conflict-reported" } else { "" }));
        } else {
            // unauthenticated SKESK v4 with a foreign password: it may yield a bogus session key; then an error, never plaintext that is not the message
            cx.out.case("", &[], &rp, &imp, Some(never_wrong_plaintext), "seipd1-foreign-password");
        }
    }
    cx.out.finish();
}
