//! prims: primitive oracle for the extracted models. Links the RustCrypto
//! crates directly (not through `pgp`). One request per line on stdin, one
//! answer per line on stdout; octet strings in hex ("-" = empty).
//!
//!   hash <id> <data>                     id: OpenPGP hash id (1 md5, 2 sha1, 3 ripemd160, 8 sha256, 9 sha384, 10 sha512, 11 sha224, 12 sha3-256, 14 sha3-512)
//!   E <alg> <key> <block>  /  D ...      alg: OpenPGP symmetric id (1 idea,2 3des,3 cast5,4 blowfish,7/8/9 aes,10 twofish,11/12/13 camellia)
//!   seal <aead> <alg> <key> <nonce> <ad> <pt>   aead: 1 eax, 2 ocb, 3 gcm
//!   open <aead> <alg> <key> <nonce> <ad> <ct>   -> hex | FAIL
//!   hkdf <salt|-> <ikm> <info> <len>     (HKDF-SHA256)
//!   argon2 <t> <p> <m_kib> <salt> <pw> <len>
//!   z <alg> <data> / unz <alg> <data>    alg: 1 zip (deflate), 2 zlib, 3 bzip2
use std::io::{BufRead, Read, Write};

use aead::{AeadInPlace, KeyInit};
use cipher::{BlockDecrypt, BlockEncrypt};
use digest::Digest;
use generic_array::GenericArray;

fn unhx(s: &str) -> Vec<u8> { if s == "-" { vec![] } else { hex::decode(s).expect("hex") } }
fn hx(b: &[u8]) -> String { if b.is_empty() { "-".into() } else { hex::encode(b) } }

fn hash(id: u32, d: &[u8]) -> Option<Vec<u8>> {
    Some(match id {
        1 => md5::Md5::digest(d).to_vec(),
        2 => sha1::Sha1::digest(d).to_vec(),
        3 => ripemd::Ripemd160::digest(d).to_vec(),
        8 => sha2::Sha256::digest(d).to_vec(),
        9 => sha2::Sha384::digest(d).to_vec(),
        10 => sha2::Sha512::digest(d).to_vec(),
        11 => sha2::Sha224::digest(d).to_vec(),
        12 => sha3::Sha3_256::digest(d).to_vec(),
        14 => sha3::Sha3_512::digest(d).to_vec(),
        _ => return None,
    })
}

macro_rules! blk {
    ($c:ty, $key:expr, $block:expr, $enc:expr) => {{
        let Ok(c) = <$c>::new_from_slice($key) else { return None; };
        let mut b = GenericArray::clone_from_slice($block);
        if $enc { c.encrypt_block(&mut b) } else { c.decrypt_block(&mut b) }
        Some(b.to_vec())
    }};
}

fn block_size(alg: u32) -> usize { match alg { 7 | 8 | 9 | 10 | 11 | 12 | 13 => 16, _ => 8 } }

fn block(alg: u32, key: &[u8], b: &[u8], enc: bool) -> Option<Vec<u8>> {
    if b.len() != block_size(alg) { return None; }
    match alg {
        1 => blk!(idea::Idea, key, b, enc),
        2 => blk!(des::TdesEde3, key, b, enc),
        3 => blk!(cast5::Cast5, key, b, enc),
        4 => blk!(blowfish::Blowfish, key, b, enc),
        7 => blk!(aes::Aes128, key, b, enc),
        8 => blk!(aes::Aes192, key, b, enc),
        9 => blk!(aes::Aes256, key, b, enc),
        10 => blk!(twofish::Twofish, key, b, enc),
        11 => blk!(camellia::Camellia128, key, b, enc),
        12 => blk!(camellia::Camellia192, key, b, enc),
        13 => blk!(camellia::Camellia256, key, b, enc),
        _ => None,
    }
}

macro_rules! aead_op {
    ($c:ty, $key:expr, $nonce:expr, $ad:expr, $buf:expr, $seal:expr) => {{
        let Ok(c) = <$c>::new_from_slice($key) else { return None; };
        let n = GenericArray::from_slice($nonce);
        let mut v = $buf.to_vec();
        let r = if $seal { c.encrypt_in_place(n, $ad, &mut v) } else { c.decrypt_in_place(n, $ad, &mut v) };
        r.ok().map(|_| v)
    }};
}

type Gcm192 = aes_gcm::AesGcm<aes::Aes192, generic_array::typenum::U12>;
type Ocb128 = ocb3::Ocb3<aes::Aes128, generic_array::typenum::U15, generic_array::typenum::U16>;
type Ocb192 = ocb3::Ocb3<aes::Aes192, generic_array::typenum::U15, generic_array::typenum::U16>;
type Ocb256 = ocb3::Ocb3<aes::Aes256, generic_array::typenum::U15, generic_array::typenum::U16>;

fn aead_do(aead: u32, alg: u32, key: &[u8], nonce: &[u8], ad: &[u8], buf: &[u8], seal: bool) -> Option<Vec<u8>> {
    let nlen = match aead { 1 => 16, 2 => 15, 3 => 12, _ => return None };
    if nonce.len() != nlen { return None; }
    match (aead, alg) {
        (1, 7) => aead_op!(eax::Eax<aes::Aes128>, key, nonce, ad, buf, seal),
        (1, 8) => aead_op!(eax::Eax<aes::Aes192>, key, nonce, ad, buf, seal),
        (1, 9) => aead_op!(eax::Eax<aes::Aes256>, key, nonce, ad, buf, seal),
        (2, 7) => aead_op!(Ocb128, key, nonce, ad, buf, seal),
        (2, 8) => aead_op!(Ocb192, key, nonce, ad, buf, seal),
        (2, 9) => aead_op!(Ocb256, key, nonce, ad, buf, seal),
        (3, 7) => aead_op!(aes_gcm::Aes128Gcm, key, nonce, ad, buf, seal),
        (3, 8) => aead_op!(Gcm192, key, nonce, ad, buf, seal),
        (3, 9) => aead_op!(aes_gcm::Aes256Gcm, key, nonce, ad, buf, seal),
        _ => None,
    }
}

fn compress(alg: u32, d: &[u8]) -> Option<Vec<u8>> {
    let mut out = Vec::new();
    match alg {
        1 => { let mut e = flate2::write::DeflateEncoder::new(&mut out, flate2::Compression::default()); e.write_all(d).ok()?; e.finish().ok()?; }
        2 => { let mut e = flate2::write::ZlibEncoder::new(&mut out, flate2::Compression::default()); e.write_all(d).ok()?; e.finish().ok()?; }
        3 => { let mut e = bzip2::write::BzEncoder::new(&mut out, bzip2::Compression::default()); e.write_all(d).ok()?; e.finish().ok()?; }
        _ => return None,
    }
    Some(out)
}
fn decompress(alg: u32, d: &[u8]) -> Option<Vec<u8>> {
    let mut out = Vec::new();
    match alg {
        1 => { flate2::read::DeflateDecoder::new(d).read_to_end(&mut out).ok()?; }
        2 => { flate2::read::ZlibDecoder::new(d).read_to_end(&mut out).ok()?; }
        3 => { bzip2::read::BzDecoder::new(d).read_to_end(&mut out).ok()?; }
        _ => return None,
    }
    Some(out)
}

fn handle(a: &[&str]) -> Option<String> {
    let n = |s: &str| s.parse::<u32>().ok();
    Some(match a[0] {
        "hash" => hx(&hash(n(a[1])?, &unhx(a[2]))?),
        "hashrep" => {
            // hash of prefix ++ the first n octets of unit repeated (long S2K repetitions)
            let (id, prefix, unit, n) = (n(a[1])?, unhx(a[2]), unhx(a[3]), a[4].parse::<usize>().ok()?);
            if unit.is_empty() { return None; }
            let mut data = prefix;
            let mut left = n;
            while left > 0 { let k = left.min(unit.len()); data.extend_from_slice(&unit[..k]); left -= k; }
            hx(&hash(id, &data)?)
        }
        "E" => hx(&block(n(a[1])?, &unhx(a[2]), &unhx(a[3]), true)?),
        "D" => hx(&block(n(a[1])?, &unhx(a[2]), &unhx(a[3]), false)?),
        "seal" => hx(&aead_do(n(a[1])?, n(a[2])?, &unhx(a[3]), &unhx(a[4]), &unhx(a[5]), &unhx(a[6]), true)?),
        "open" => match aead_do(n(a[1])?, n(a[2])?, &unhx(a[3]), &unhx(a[4]), &unhx(a[5]), &unhx(a[6]), false) { Some(v) => format!("OK{}", hx(&v)), None => "FAIL".into() },
        "hkdf" => {
            let salt = unhx(a[1]);
            let hk = hkdf::Hkdf::<sha2::Sha256>::new(if a[1] == "-" { None } else { Some(&salt[..]) }, &unhx(a[2]));
            let mut okm = vec![0u8; a[4].parse().ok()?];
            hk.expand(&unhx(a[3]), &mut okm).ok()?;
            hx(&okm)
        }
        "argon2" => {
            let (t, p, m) = (n(a[1])?, n(a[2])?, n(a[3])?);
            let params = argon2::Params::new(m, t, p, Some(a[6].parse().ok()?)).ok()?;
            let ctx = argon2::Argon2::new(argon2::Algorithm::Argon2id, argon2::Version::V0x13, params);
            let mut out = vec![0u8; a[6].parse().ok()?];
            ctx.hash_password_into(&unhx(a[5]), &unhx(a[4]), &mut out).ok()?;
            hx(&out)
        }
        "z" => hx(&compress(n(a[1])?, &unhx(a[2]))?),
        "unz" => match decompress(n(a[1])?, &unhx(a[2])) { Some(v) => format!("OK{}", hx(&v)), None => "FAIL".into() },
        _ => return None,
    })
}

fn main() {
    let stdin = std::io::stdin();
    let mut out = std::io::stdout();
    for line in stdin.lock().lines() {
        let Ok(line) = line else { break };
        let parts: Vec<&str> = line.split_whitespace().collect();
        let ans = if parts.is_empty() { String::new() } else { handle(&parts).unwrap_or_else(|| "UNSUPPORTED".into()) };
        writeln!(out, "{ans}").unwrap();
        out.flush().unwrap();
    }
}
