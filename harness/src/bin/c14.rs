//! C14: text canonicalisation is one function, however the text is delivered.
use pgp::composed::{DetachedSignature, KeyType, MessageBuilder};
use pgp::crypto::hash::HashAlgorithm;
use pgp::line_writer::LineBreak;
use pgp::normalize_lines::NormalizedReader;
use pgp::packet::{DataMode, SignatureConfig, SignatureType};
use pgp::types::{KeyDetails, KeyVersion, Password};
use vh::keys::{gen_key, RecKey};
use vh::*;

const CR: u8 = 13;
const LF: u8 = 10;

fn canon(d: &[u8]) -> Vec<u8> {
    // harness-side statement of the property (used only for `pred`)
    let mut out = Vec::new();
    let mut prev_cr = false;
    for &b in d {
        if b == LF && !prev_cr {
            out.push(CR);
        }
        out.push(b);
        prev_cr = b == CR;
    }
    out
}

struct Ctx {
    out: Out,
    key: pgp::composed::SignedSecretKey,
}

impl Ctx {
    /// hasher over chunks (hook: exact octets reaching the digest)
    fn nh(&mut self, text: bool, chunks: &[Vec<u8>], cls: &str) {
        let r = guarded(|| pgp::verif_hooks::normalizing_hasher_run(text, chunks));
        let flat: Vec<u8> = chunks.concat();
        let (imp, pred) = match r {
            Ok(v) => {
                let want = if text { canon(&flat) } else { flat.clone() };
                (hx(&v), v == want)
            }
            Err(e) => (e, false),
        };
        self.out.case("nh", &[(text as u8).to_string(), hxs(chunks)], &[], &imp, Some(pred), cls);
    }

    /// NormalizedReader over a scheduled source with a consumer schedule
    fn nr(&mut self, lb: u8, data: &[u8], src: &[usize], reqs: &[usize], cls: &str) {
        let lbv = match lb { 0 => LineBreak::Lf, 1 => LineBreak::Crlf, _ => LineBreak::Cr };
        let r = guarded(|| {
            let rd = NormalizedReader::new(SchedReader::new(data.to_vec(), src.to_vec()), lbv);
            consume_read(rd, reqs)
        });
        let (imp, pred) = match r {
            Ok((v, Ok(()))) => (hx(&v), lb != 1 || v == canon(data)),
            Ok((_, Err(e))) => (format!("ERR {e}"), false),
            Err(e) => (e, false),
        };
        self.out.case("nr", &[lb.to_string(), hx(data)],
            &["nr".into(), lb.to_string(), hx(data), nums(src), nums(reqs)], &imp, Some(pred), cls);
    }

    /// LiteralData::from_str: one more place that stores the canonical text (utf8 mode literal)
    fn lit(&mut self, data: &[u8], cls: &str) {
        let s = String::from_utf8(data.to_vec()).expect("ascii");
        let r = guarded(|| pgp::packet::LiteralData::from_str("", &s).map(|l| l.data().to_vec()).map_err(|e| e.to_string()));
        let (imp, pred) = match r {
            Ok(Ok(v)) => { let ok = v == canon(data); (hx(&v), ok) }
            Ok(Err(e)) => (format!("ERR {e}"), false),
            Err(e) => (e, false),
        };
        self.out.case("nl", &["1".into(), hx(data)], &["lit".into(), hx(data)], &imp, Some(pred), cls);
    }

    /// normalize_lines (in-memory)
    fn nl(&mut self, lb: u8, data: &[u8], cls: &str) {
        let lbv = match lb { 0 => LineBreak::Lf, 1 => LineBreak::Crlf, _ => LineBreak::Cr };
        let s = String::from_utf8(data.to_vec()).expect("ascii");
        let r = guarded(|| pgp::verif_hooks::normalize_lines(&s, lbv).into_bytes());
        let (imp, pred) = match r {
            Ok(v) => (hx(&v), lb != 1 || v == canon(data)),
            Err(e) => (e, false),
        };
        self.out.case("nl", &[lb.to_string(), hx(data)], &[], &imp, Some(pred), cls);
    }


    /// the cleartext framework as one more place that canonicalises: over texts without blanks or
    /// dashes nothing is trimmed or escaped, so what it signs must be the canonical text, and the
    /// digest must be the one-shot text signer's
    fn csf(&mut self, data: &[u8], cls: &str) {
        use pgp::composed::CleartextSignedMessage;
        use pgp::packet::{Subpacket, SubpacketData};
        use pgp::types::Timestamp;
        let rk = RecKey::new(self.key.primary_key.public_key().clone());
        let s = String::from_utf8(data.to_vec()).expect("ascii");
        let r = guarded(|| -> Result<(Vec<u8>, bool), String> {
            let mk = || { let mut c = SignatureConfig::v4(SignatureType::Text, rk.algorithm(), HashAlgorithm::Sha256);
                c.hashed_subpackets = vec![Subpacket::regular(SubpacketData::SignatureCreationTime(Timestamp::from_secs(1_700_000_000))).unwrap()]; c };
            rk.clear();
            let msg = CleartextSignedMessage::new(&s, mk(), &rk, &Password::empty()).map_err(|e| e.to_string())?;
            let d_csf = rk.last().unwrap_or_default();
            let signed = msg.signed_text().into_bytes();
            // the streaming hasher over the same text with the same signature fields
            use std::io::Write;
            let mut h = mk().into_hasher().map_err(|e| e.to_string())?;
            h.write_all(data).map_err(|e| e.to_string())?;
            let _ = h.sign(&rk, &Password::empty()).map_err(|e| e.to_string())?;
            let d_stream = rk.last().unwrap_or_default();
            let v = msg.verify(&rk).is_ok();
            Ok((signed, v && d_csf == d_stream && !d_csf.is_empty()))
        });
        let (imp, pred) = match r {
            Ok(Ok((signed, same))) => (hx(&signed), same && signed == canon(data)),
            Ok(Err(e)) => (format!("ERR {e}"), false),
            Err(e) => (e, false),
        };
        self.out.case("nl", &["1".into(), hx(data)], &["csf".into(), hx(data)], &imp, Some(pred), cls);
    }

    /// UTF-8 literal data through the builder: accepted iff already canonical
    fn crlf(&mut self, data: &[u8], src: &[usize], cls: &str) {
        let r = guarded(|| {
            let rd = SchedReader::new(data.to_vec(), src.to_vec());
            let mut b = MessageBuilder::from_reader("", rd);
            if b.data_mode(DataMode::Utf8).is_err() {
                return false;
            }
            b.to_vec(Rng::new(1)).is_ok()
        });
        let (imp, pred) = match r {
            Ok(ok) => ((ok as u8).to_string(), ok == (canon(data) == data)),
            Err(e) => (e, false),
        };
        // the model gets the chunks the checker saw: the literal generator reads
        // through fill_buffer in pieces decided by the source schedule
        self.out.case("crlf", &[hxs(&split_by(data, &expand(src, data.len())))], &[], &imp, Some(pred), cls);
    }

    /// end to end: text-mode signature made over chunked writes must verify
    /// against the document delivered through a scheduled reader, and against
    /// the LF and CRLF forms of the document.
    fn e2e(&mut self, data: &[u8], chunks: &[usize], src: &[usize], cls: &str) {
        let key = &self.key;
        let rk = RecKey::new(key.primary_key.public_key().clone());
        let r = guarded(|| -> Result<(String, bool), String> {
            use std::io::Write;
            let cfg = SignatureConfig::v4(SignatureType::Text, rk.algorithm(), HashAlgorithm::Sha256);
            let mut h = cfg.into_hasher().map_err(|e| e.to_string())?;
            for c in split_by(data, chunks) {
                h.write_all(&c).map_err(|e| e.to_string())?;
            }
            let sig = h.sign(&rk, &Password::empty()).map_err(|e| e.to_string())?;
            let d_sign = rk.last().unwrap_or_default();
            // (a) verify over a scheduled reader
            let va = sig.verify(&rk, SchedReader::new(data.to_vec(), src.to_vec())).is_ok();
            let d_ver = rk.last().unwrap_or_default();
            // (b) one-shot signer, same digest?
            let sig2 = DetachedSignature::sign_text_data(Rng::new(7), &rk, &Password::empty(), HashAlgorithm::Sha256, data)
                .map_err(|e| e.to_string())?;
            let d_sign2 = rk.last().unwrap_or_default();
            let vb = sig2.verify(&rk, data).is_ok() && rk.last().unwrap_or_default() == d_sign2;
            // (c) CRLF form of an LF document verifies under the same signature
            let crlf_doc = canon(data);
            let vc = sig.verify(&rk, &crlf_doc[..]).is_ok();
            let ok = va && vb && vc && d_sign == d_ver;
            Ok((format!("{} {} {} {}", va as u8, vb as u8, vc as u8, hx(&d_sign)), ok))
        });
        let (imp, pred) = match r {
            Ok(Ok((s, ok))) => (s, ok),
            Ok(Err(e)) => (format!("ERR {e}"), false),
            Err(e) => (e, false),
        };
        // model query: canonical text; the python side hashes canon ++ trailer
        self.out.case("canon", &[hx(data)],
            &["canon".into(), hx(data), nums(chunks), nums(src)], &imp, Some(pred), cls);
    }
}

/// expand a cyclic schedule to explicit chunk sizes covering n octets
fn expand(sched: &[usize], n: usize) -> Vec<usize> {
    if sched.is_empty() {
        return vec![n.max(1)];
    }
    let mut out = Vec::new();
    let mut left = n;
    let mut i = 0;
    while left > 0 {
        let q = sched[i % sched.len()];
        let q = if q == 0 { left } else { q.min(left) };
        out.push(q);
        left -= q;
        i += 1;
    }
    out
}

fn strings_over(alpha: &[u8], len: usize) -> Vec<Vec<u8>> {
    let mut out = vec![vec![]];
    for _ in 0..len {
        let mut next = Vec::new();
        for s in &out {
            for &a in alpha {
                let mut t = s.clone();
                t.push(a);
                next.push(t);
            }
        }
        out = next;
    }
    out
}

fn main() {
    quiet_panics();
    let cli = cli();
    let key = gen_key(KeyVersion::V4, KeyType::Ed25519Legacy, 14);
    let mut cx = Ctx { out: Out::new(), key };
    if cli.mode == "replay" {
        replay(&mut cx, &cli.rest);
        cx.out.finish();
        return;
    }
    let thorough = cli.tier == "thorough";
    let mut rng = Rng::new(cli.seed);
    let alpha = [CR, LF, b'x'];

    // exhaustive: all strings up to length L x all chunkings (hasher)
    let l_nh = if thorough { 10 } else { 7 };
    for len in 0..=l_nh {
        let comps = all_compositions(len);
        for s in strings_over(&alpha, len) {
            for c in &comps {
                let chunks = split_by(&s, c);
                cx.nh(true, &chunks, "nh-exh");
            }
            cx.nl(1, &s, "nl-exh");
            cx.lit(&s, "literal-from-str-exh");
            if len <= 6 { cx.csf(&s, "csf-exh"); }
            if len <= 6 {
                cx.nl(0, &s, "nl-exh-lf");
                cx.nl(2, &s, "nl-exh-cr");
            }
        }
    }
    // chunkings with empty chunks interleaved, binary mode
    for len in 0..=4 {
        for s in strings_over(&alpha, len) {
            for c in all_compositions(len) {
                let mut chunks = split_by(&s, &c);
                chunks.insert(0, vec![]);
                if chunks.len() > 1 {
                    chunks.insert(2, vec![]);
                }
                chunks.push(vec![]);
                cx.nh(true, &chunks, "nh-empty-chunks");
                cx.nh(false, &chunks, "nh-binary");
            }
        }
    }

    // reader: every short string placed at the window edges 510..514 and at 1022..1026
    let l_nr = if thorough { 6 } else { 4 };
    let prefixes: &[usize] = if thorough { &[0, 506, 507, 508, 509, 510, 511, 512, 513, 1018, 1019, 1020, 1021, 1022, 1023, 1024, 1025] }
        else { &[0, 508, 509, 510, 511, 512, 1020, 1021, 1022, 1023, 1024] };
    for len in 0..=l_nr {
        for s in strings_over(&alpha, len) {
            for &p in prefixes {
                let mut d = vec![b'a'; p];
                d.extend_from_slice(&s);
                let src: Vec<usize> = match rng.below(4) {
                    0 => vec![],
                    1 => vec![1],
                    2 => vec![rng.range(1, 600) as usize, rng.range(1, 7) as usize],
                    _ => vec![511, 1, 2],
                };
                let reqs: Vec<usize> = match rng.below(3) {
                    0 => vec![],
                    1 => vec![1],
                    _ => vec![rng.range(1, 700) as usize],
                };
                cx.nr(1, &d, &src, &reqs, "nr-edge");
                if len <= 3 && p <= 512 {
                    cx.nr(0, &d, &src, &reqs, "nr-edge-lf");
                }
            }
        }
    }
    // random long strings with CR/LF planted at 512 / 8192 edges
    let n_long = if thorough { 3000 } else { 300 };
    for _ in 0..n_long {
        let n = *rng.pick(&[511usize, 512, 513, 1023, 1024, 1025, 1536, 8191, 8192, 8193, 16384, 3000]);
        let n = n + rng.below(3) as usize;
        let mut d: Vec<u8> = (0..n).map(|_| match rng.below(12) { 0 => CR, 1 => LF, _ => b'a' + rng.below(26) as u8 }).collect();
        for edge in [512usize, 1024, 1536, 8192, 16384] {
            for off in 0..3 {
                let i = (edge + off).saturating_sub(2);
                if i < d.len() && rng.chance(2, 3) {
                    d[i] = *rng.pick(&[CR, LF, CR, LF, b'x']);
                }
            }
        }
        let src = match rng.below(3) { 0 => vec![], 1 => vec![rng.range(1, 1000) as usize], _ => vec![512, 1, 511] };
        let reqs = match rng.below(3) { 0 => vec![], 1 => vec![rng.range(1, 100) as usize], _ => vec![8192] };
        cx.nr(1, &d, &src, &reqs, "nr-long");
        let comp: Vec<usize> = vec![rng.range(1, 9000) as usize, rng.range(1, 600) as usize];
        let chunks = split_by(&d, &expand(&comp, d.len()));
        cx.nh(true, &chunks, "nh-long");
        cx.nl(1, &d, "nl-long");
    }

    // CR+LF checker through the builder
    let l_c = if thorough { 7 } else { 5 };
    for len in 0..=l_c {
        for s in strings_over(&alpha, len) {
            for c in all_compositions(len) {
                if c.len() <= 1 && len > 0 {
                    cx.crlf(&s, &[], "crlf-exh");
                } else if len > 0 {
                    cx.crlf(&s, &c, "crlf-exh");
                }
            }
        }
    }

    // end to end sign / verify
    let l_e = if thorough { 7 } else { 5 };
    for len in 0..=l_e {
        for s in strings_over(&alpha, len) {
            let c1 = rng.composition(len);
            let c2 = rng.composition(len);
            cx.e2e(&s, &c1, &c2, "e2e-exh");
        }
    }
    cx.out.finish();
}

fn parse_nums(s: &str) -> Vec<usize> {
    if s == "_" { vec![] } else { s.split(',').map(|x| x.parse().unwrap()).collect() }
}
fn parse_chunks(s: &str) -> Vec<Vec<u8>> {
    if s == "_" { vec![] } else { s.split(',').map(unhx).collect() }
}

fn replay(cx: &mut Ctx, a: &[String]) {
    match a[0].as_str() {
        "nh" => cx.nh(a[1] == "1", &parse_chunks(&a[2]), "replay"),
        "nr" => cx.nr(a[1].parse().unwrap(), &unhx(&a[2]), &parse_nums(a.get(3).map(|s| s.as_str()).unwrap_or("_")),
                      &parse_nums(a.get(4).map(|s| s.as_str()).unwrap_or("_")), "replay"),
        "nl" => cx.nl(a[1].parse().unwrap(), &unhx(&a[2]), "replay"),
        "csf" => cx.csf(&unhx(&a[1]), "replay"),
        "lit" => cx.lit(&unhx(&a[1]), "replay"),
        "crlf" => {
            let chunks = parse_chunks(&a[1]);
            let sizes: Vec<usize> = chunks.iter().map(|c| c.len()).collect();
            cx.crlf(&chunks.concat(), &sizes, "replay")
        }
        "canon" => cx.e2e(&unhx(&a[1]), &parse_nums(a.get(2).map(|s| s.as_str()).unwrap_or("_")),
                          &parse_nums(a.get(3).map(|s| s.as_str()).unwrap_or("_")), "replay"),
        _ => panic!("unknown op"),
    }
}
