//! C13: fingerprints and key ids are the RFC-defined hashes and are stable.
use std::io::Read;

use pgp::composed::{Deserializable, KeyType, Message, MessageBuilder, SignedPublicKey, SignedSecretKey};
use pgp::crypto::ecc_curve::ECCCurve;
use pgp::crypto::sym::SymmetricKeyAlgorithm;
use pgp::packet::{Packet, PacketParser};
use pgp::ser::Serialize;
use pgp::types::{KeyDetails, KeyVersion, Password, PublicParams};
use vh::keys::gen_key;
use vh::*;

struct Ctx { out: Out }

fn kv(v: KeyVersion) -> u8 { match v { KeyVersion::V6 => 6, KeyVersion::V4 => 4, KeyVersion::V3 => 3, KeyVersion::V2 => 2, _ => 0 } }

impl Ctx {
    /// one public key (or subkey): library fingerprint and key id vs the model on the body
    fn key<K: KeyDetails + Serialize>(&mut self, k: &K, wire_body: Option<&[u8]>, cls: &str) {
        let v = kv(k.version());
        let r = guarded(|| (k.fingerprint().as_bytes().to_vec(), k.legacy_key_id().as_ref().to_vec(), k.to_bytes().unwrap_or_default()));
        let Ok((fp, kid, body)) = r else { self.out.case("", &[], &["key".into()], "PANIC", Some(false), cls); return; };
        // the body the fingerprint must be computed over: the wire octets when we have them
        let b = wire_body.unwrap_or(&body);
        let same_ser = wire_body.map(|w| w == &body[..]).unwrap_or(true);
        if v == 3 || v == 2 {
            if let PublicParams::RSA(p) = k.public_params() {
                use rsa::traits::PublicKeyParts;
                let n = p.key.n().to_bytes_be(); let e = p.key.e().to_bytes_be();
                // harness-side statement of RFC 9580 5.5.4.1
                use digest::Digest;
                let mut pre = n.clone(); pre.extend_from_slice(&e);
                let want = md5::Md5::digest(&pre).to_vec();
                self.out.case("fp3", &[hx(&n), hx(&e)], &[], &format!("{} {}", hx(&fp), hx(&kid)), Some(fp == want), cls);
            }
            return;
        }
        let want: Vec<u8> = {
            use digest::Digest;
            if v == 6 { let mut p = vec![0x9b]; p.extend((b.len() as u32).to_be_bytes()); p.extend_from_slice(b); sha2::Sha256::digest(&p).to_vec() }
            else { let mut p = vec![0x99]; p.extend((b.len() as u16).to_be_bytes()); p.extend_from_slice(b); sha1::Sha1::digest(&p).to_vec() }
        };
        let kid_ok = if v == 6 { kid == want[..8] } else { kid == want[want.len() - 8..] };
        self.out.case("fp", &[v.to_string(), hx(b)], &[], &format!("{} {}", hx(&fp), hx(&kid)), Some(same_ser && fp == want && kid_ok), cls);
    }

    /// the value types as they are reported in text: all octets, two hex digits each (a key id that starts with a zero
    /// nibble is still 16 digits; it is the tail / head of the printed fingerprint)
    fn reported(&mut self, fp: &pgp::types::Fingerprint, kid: &pgp::types::KeyId, cls: &str) {
        let r = guarded(|| {
            let k = (format!("{kid}"), format!("{kid:?}"));
            let f = (format!("{fp}"), format!("{fp:x}"), format!("{fp:X}"));
            let hk = hx(kid.as_ref()); let hf = hx(fp.as_bytes());
            let ok = k.0.eq_ignore_ascii_case(&hk) && k.1.to_ascii_lowercase().contains(&hk) && f.0.eq_ignore_ascii_case(&hf) && f.1 == hf && f.2 == hf.to_ascii_uppercase();
            (format!("key id {} / {} fingerprint {}", k.0, k.1, f.0), ok)
        });
        let (imp, ok) = match r { Ok(x) => x, Err(p) => (p, false) };
        self.out.case("", &[], &["reported".into(), hx(fp.as_bytes()), hx(kid.as_ref())], &imp, Some(ok), &format!("{cls}-reported-in-text"));
    }

    fn cert(&mut self, pk: &SignedPublicKey, sk: Option<&SignedSecretKey>, cls: &str) {
        self.reported(&pk.fingerprint(), &pk.legacy_key_id(), cls);
        for s in &pk.public_subkeys { let (f, k) = (s.key.fingerprint(), s.key.legacy_key_id()); self.reported(&f, &k, cls); }
        self.key(&pk.primary_key, None, cls);
        for s in &pk.public_subkeys { self.key(&s.key, None, cls); }
        // stable: secret key, its public half, and a re-parsed copy agree
        if let Some(sk) = sk {
            let a = (sk.fingerprint(), sk.legacy_key_id());
            let b = (pk.fingerprint(), pk.legacy_key_id());
            let re = sk.to_bytes().ok().and_then(|b| SignedSecretKey::from_bytes(&b[..]).ok());
            let c = re.as_ref().map(|r| (r.fingerprint(), r.legacy_key_id()));
            let subs_ok = sk.secret_subkeys.iter().all(|s| { let p = s.key.public_key(); p.fingerprint() == s.key.fingerprint() && p.legacy_key_id() == s.key.legacy_key_id() });
            let ok = a == b && Some(a.clone()) == c && subs_ok;
            self.out.case("", &[], &["stable".into(), format!("{:?}", a.0)], &format!("{}", ok as u8), Some(ok), &format!("{cls}-stable"));
        }
    }

    /// what the library embeds when it signs and encrypts
    fn embedded(&mut self, sk: &SignedSecretKey, cls: &str) {
        let pk = SignedPublicKey::from(sk.clone());
        let r = guarded(|| -> Result<bool, String> {
            let mut b = MessageBuilder::from_bytes("", b"hello".to_vec());
            { use pgp::types::SigningKey; let h = sk.primary_key.hash_alg(); b.sign(&sk.primary_key, Password::empty(), h); }
            let signed = b.to_vec(Rng::new(3)).map_err(|e| e.to_string())?;
            let mut ok = true;
            for p in PacketParser::new(&signed[..]) {
                match p.map_err(|e| e.to_string())? {
                    Packet::OnePassSignature(ops) => {
                        use pgp::packet::OpsVersionSpecific;
                        match ops.version_specific() {
                            OpsVersionSpecific::V3 { key_id } => ok &= *key_id == sk.legacy_key_id(),
                            OpsVersionSpecific::V6 { fingerprint, .. } => ok &= &fingerprint[..] == sk.fingerprint().as_bytes(),
                            _ => ok = false,
                        }
                    }
                    Packet::Signature(sig) => {
                        let fps = sig.issuer_fingerprint();
                        ok &= !fps.is_empty() && fps.iter().all(|f| **f == sk.fingerprint());
                        if sk.version() == KeyVersion::V4 { let ids = sig.issuer_key_id(); ok &= ids.iter().all(|i| **i == sk.legacy_key_id()); }
                    }
                    _ => {}
                }
            }
            // encryption: recipient field of the PKESK
            if let Some(sub) = pk.public_subkeys.iter().find(|s| s.key.algorithm().can_encrypt()) {
                for v1 in [true, false] {
                    let bytes = if v1 {
                        let mut b = MessageBuilder::from_bytes("", b"x".to_vec()).seipd_v1(Rng::new(4), SymmetricKeyAlgorithm::AES128);
                        b.encrypt_to_key(Rng::new(5), &sub.key).map_err(|e| e.to_string())?; b.to_vec(Rng::new(6)).map_err(|e| e.to_string())?
                    } else {
                        let mut b = MessageBuilder::from_bytes("", b"x".to_vec()).seipd_v2(Rng::new(4), SymmetricKeyAlgorithm::AES128, pgp::crypto::aead::AeadAlgorithm::Ocb, pgp::crypto::aead::ChunkSize::C64B);
                        b.encrypt_to_key(Rng::new(5), &sub.key).map_err(|e| e.to_string())?; b.to_vec(Rng::new(6)).map_err(|e| e.to_string())?
                    };
                    for p in PacketParser::new(&bytes[..]) {
                        if let Ok(Packet::PublicKeyEncryptedSessionKey(esk)) = p {
                            use pgp::packet::PublicKeyEncryptedSessionKey as P;
                            match &esk {
                                P::V3 { id, .. } => ok &= *id == sub.key.legacy_key_id(),
                                P::V6 { fingerprint, .. } => ok &= fingerprint.as_ref() == Some(&sub.key.fingerprint()),
                                _ => {}
                            }
                        }
                    }
                }
            }
            Ok(ok)
        });
        let (imp, pred) = match r { Ok(Ok(ok)) => ((ok as u8).to_string(), ok), Ok(Err(e)) => (format!("ERR {e}"), false), Err(p) => (p, false) };
        self.out.case("", &[], &["embedded".into(), hx(sk.fingerprint().as_bytes())], &imp, Some(pred), &format!("{cls}-embedded"));
    }
}

impl Ctx {
    /// every signing interface with a signer that differs from the key or component signed:
    /// the issuer fields name the issuing key, never the signee
    fn issuing_sites(&mut self, a: &SignedSecretKey, b: &SignedSecretKey, cls: &str) {
        use pgp::packet::{SignatureType, UserAttribute, UserId, Signature};
        use pgp::types::{KeyDetails as KD, PacketHeaderVersion};
        let pw = Password::empty();
        fn names(sig: &Signature, fp: &pgp::types::Fingerprint, id: &pgp::types::KeyId, v4: bool) -> bool {
            let fps = sig.issuer_fingerprint();
            let mut ok = !fps.is_empty() && fps.iter().all(|f| *f == fp);
            let ids = sig.issuer_key_id();
            if v4 { ok &= !ids.is_empty(); }
            ok &= ids.iter().all(|i| *i == id);
            ok
        }
        let afp = a.primary_key.fingerprint(); let aid = a.primary_key.legacy_key_id(); let av4 = a.version() == KeyVersion::V4;
        let bpub = b.primary_key.public_key();
        let mut results: Vec<(String, Option<bool>)> = Vec::new();
        let mut push = |n: &str, r: Result<Option<bool>, String>| results.push((n.to_string(), r.ok().flatten()));
        push("userid.sign_third_party", guarded(|| { let u = UserId::from_str(PacketHeaderVersion::New, "third <t@example.org>").ok()?; let su = u.sign_third_party(Rng::new(1), &a.primary_key, &pw, &bpub, SignatureType::CertGeneric).ok()?; Some(su.signatures.iter().all(|s| names(s, &afp, &aid, av4)) && !su.signatures.is_empty()) }));
        push("userid.sign(self)", guarded(|| { let u = UserId::from_str(PacketHeaderVersion::New, "self <s@example.org>").ok()?; let su = u.sign(Rng::new(1), &a.primary_key, &a.primary_key.public_key(), &pw).ok()?; Some(su.signatures.iter().all(|s| names(s, &afp, &aid, av4)) && !su.signatures.is_empty()) }));
        push("userattribute.sign_third_party", guarded(|| { let img: Vec<u8> = vec![0xFF, 0xD8, 0xFF, 0xE0, 0, 16, b'J', b'F', b'I', b'F', 0, 1, 1, 0, 0, 1, 0, 1, 0, 0, 0xFF, 0xD9]; let u = UserAttribute::new_image(img.into()).ok()?; let su = u.sign_third_party(Rng::new(1), &a.primary_key, &pw, &bpub, SignatureType::CertGeneric).ok()?; Some(su.signatures.iter().all(|s| names(s, &afp, &aid, av4)) && !su.signatures.is_empty()) }));
        if let Some(sub) = b.secret_subkeys.first() {
            let subpub = sub.key.public_key();
            push("publicsubkey.sign(binding by another primary)", guarded(|| { let s = subpub.sign(Rng::new(1), &a.primary_key, &a.primary_key.public_key(), &pw, Default::default(), None).ok()?; Some(names(&s, &afp, &aid, av4)) }));
            push("secretsubkey.sign(binding by another primary)", guarded(|| { let s = sub.key.sign(Rng::new(1), &a.primary_key, &a.primary_key.public_key(), &pw, Default::default(), None).ok()?; Some(names(&s, &afp, &aid, av4)) }));
            let sfp = sub.key.fingerprint(); let sid = sub.key.legacy_key_id(); let sv4 = sub.key.version() == KeyVersion::V4;
            if sub.key.algorithm().can_sign() {
                push("secretsubkey.sign_primary_key_binding", guarded(|| { let s = sub.key.sign_primary_key_binding(Rng::new(1), &a.primary_key.public_key(), &pw).ok()?; Some(names(&s, &sfp, &sid, sv4)) }));
                push("detached by subkey", guarded(|| { use pgp::types::SigningKey; let d = pgp::composed::DetachedSignature::sign_binary_data(Rng::new(1), &sub.key, &pw, sub.key.hash_alg(), &b"x"[..]).ok()?; Some(names(&d.signature, &sfp, &sid, sv4)) }));
            }
        }
        push("detached by primary", guarded(|| { use pgp::types::SigningKey; let d = pgp::composed::DetachedSignature::sign_text_data(Rng::new(1), &a.primary_key, &pw, a.primary_key.hash_alg(), &b"x"[..]).ok()?; Some(names(&d.signature, &afp, &aid, av4)) }));
        push("cleartext", guarded(|| { let c = pgp::composed::CleartextSignedMessage::sign(Rng::new(1), "x\n", &a.primary_key, &pw).ok()?; Some(c.signatures().iter().all(|s| names(s, &afp, &aid, av4)) && !c.signatures().is_empty()) }));
        for (n, r) in results {
            let imp = match r { Some(true) => "issuer=signer", Some(false) => "issuer!=signer", None => "n/a" };
            self.out.case("", &[], &["issuing".into(), n.clone(), hx(afp.as_bytes()), hx(b.fingerprint().as_bytes())], imp, Some(r != Some(false)), &format!("{cls}-{}", if r.is_some() { n.as_str() } else { "unavailable" }));
        }
    }
}

impl Ctx {
    /// the lookup side: which key a signature / a PKESK names. `a` signs with every choice of issuer subpackets
    /// (none / its own / b's / both, key id and fingerprint, hashed or unhashed area); the signature is valid under
    /// a's key, so verification under a's key succeeds exactly when the signature is matched to that key.
    fn lookup(&mut self, a: &SignedSecretKey, b: &SignedSecretKey, cls: &str) {
        use pgp::packet::{SignatureConfig, SignatureType, Subpacket, SubpacketData};
        use pgp::types::{KeyDetails as KD, Timestamp};
        let pw = Password::empty();
        let data = b"lookup".to_vec();
        let apub = a.primary_key.public_key();
        let (akid, afp) = (a.primary_key.legacy_key_id(), a.primary_key.fingerprint());
        let (bkid, bfp) = (b.primary_key.legacy_key_id(), b.primary_key.fingerprint());
        for kc in 0..4u8 { for fc in 0..4u8 { for unhashed in [false, true] {
            let kids: Vec<pgp::types::KeyId> = match kc { 0 => vec![], 1 => vec![akid], 2 => vec![bkid], _ => vec![bkid, akid] };
            let fps: Vec<pgp::types::Fingerprint> = match fc { 0 => vec![], 1 => vec![afp.clone()], 2 => vec![bfp.clone()], _ => vec![bfp.clone(), afp.clone()] };
            let r = guarded(|| -> Option<bool> {
                let mut c = SignatureConfig::from_key(Rng::new(7), &a.primary_key, SignatureType::Binary).ok()?;
                let mut issuer: Vec<Subpacket> = Vec::new();
                for k in &kids { issuer.push(Subpacket::regular(SubpacketData::IssuerKeyId(*k)).ok()?); }
                for f in &fps { issuer.push(Subpacket::regular(SubpacketData::IssuerFingerprint(f.clone())).ok()?); }
                c.hashed_subpackets = vec![Subpacket::regular(SubpacketData::SignatureCreationTime(Timestamp::from_secs(1_700_000_000))).ok()?];
                if unhashed { c.unhashed_subpackets = issuer; } else { c.hashed_subpackets.extend(issuer); }
                let sig = c.sign(&a.primary_key, &pw, &data[..]).ok()?;
                // through the wire, as a verifier would get it
                let mut w = Vec::new(); pgp::packet::Packet::from(sig).to_writer(&mut w).ok()?;
                let sig = match PacketParser::new(&w[..]).next()?.ok()? { Packet::Signature(s) => s, _ => return None };
                Some(sig.verify(&apub, &data[..]).is_ok())
            });
            let names_own = kc == 1 || kc == 3 || fc == 1 || fc == 3;
            let names_nobody = kc == 0 && fc == 0;
            let (imp, pred) = match r { Ok(Some(ok)) => ((ok as u8).to_string(), Some(if names_own || names_nobody { ok } else { !ok })), Ok(None) => ("n/a".to_string(), None), Err(p) => (p, Some(false)) };
            let l = |v: Vec<String>| if v.is_empty() { "_".to_string() } else { v.join(",") };
            if imp == "n/a" { self.out.case("", &[], &["lookup".into(), cls.into(), kc.to_string(), fc.to_string()], &imp, Some(true), &format!("{cls}-lookup-not-signable")); continue; }
            self.out.case("sigmatch", &[l(kids.iter().map(|k| hx(k.as_ref())).collect()), l(fps.iter().map(|f| hx(f.as_bytes())).collect()), hx(akid.as_ref()), hx(afp.as_bytes())],
                &["lookup".into(), cls.into(), kc.to_string(), fc.to_string(), (unhashed as u8).to_string()], &imp, pred,
                &format!("{cls}-lookup-{}{}", if names_nobody { "nobody" } else if names_own { "own" } else { "foreign" }, if unhashed { "-unhashed" } else { "" }));
        } } }
        // PKESK targets
        use pgp::packet::PublicKeyEncryptedSessionKey as P;
        let Some(sub) = a.secret_subkeys.iter().find(|s| s.key.algorithm().can_encrypt()) else { return; };
        let subpub = sub.key.public_key();
        let other = &b.primary_key;
        for (v1, anon) in [(true, false), (true, true), (false, false), (false, true)] {
            let esk = guarded(|| -> Option<P> {
                let mut mb = if v1 { MessageBuilder::from_bytes("", b"x".to_vec()).seipd_v1(Rng::new(4), SymmetricKeyAlgorithm::AES128) } else { return None };
                if anon { mb.encrypt_to_key_anonymous(Rng::new(5), &subpub).ok()?; } else { mb.encrypt_to_key(Rng::new(5), &subpub).ok()?; }
                let bytes = mb.to_vec(Rng::new(6)).ok()?;
                PacketParser::new(&bytes[..]).filter_map(|p| p.ok()).find_map(|p| if let Packet::PublicKeyEncryptedSessionKey(e) = p { Some(e) } else { None })
            }).ok().flatten().or_else(|| guarded(|| -> Option<P> {
                let mut mb = MessageBuilder::from_bytes("", b"x".to_vec()).seipd_v2(Rng::new(4), SymmetricKeyAlgorithm::AES128, pgp::crypto::aead::AeadAlgorithm::Ocb, pgp::crypto::aead::ChunkSize::C64B);
                if anon { mb.encrypt_to_key_anonymous(Rng::new(5), &subpub).ok()?; } else { mb.encrypt_to_key(Rng::new(5), &subpub).ok()?; }
                let bytes = mb.to_vec(Rng::new(6)).ok()?;
                PacketParser::new(&bytes[..]).filter_map(|p| p.ok()).find_map(|p| if let Packet::PublicKeyEncryptedSessionKey(e) = p { Some(e) } else { None })
            }).ok().flatten());
            let Some(esk) = esk else { continue; };
            let target = match &esk { P::V3 { id, .. } => format!("k:{}", hx(id.as_ref())), P::V6 { fingerprint: Some(f), .. } => format!("f:{}", hx(f.as_bytes())), P::V6 { fingerprint: None, .. } => "f:_".to_string(), _ => "o".to_string() };
            for (who, kid, fp, is_recipient) in [("recipient", subpub.legacy_key_id(), subpub.fingerprint(), true), ("other", other.legacy_key_id(), other.fingerprint(), false), ("primary", a.primary_key.legacy_key_id(), a.primary_key.fingerprint(), false)] {
                let m = match who { "recipient" => esk.match_identity(&subpub), "other" => esk.match_identity(&other.public_key()), _ => esk.match_identity(&apub) };
                // the packet the library wrote for the recipient names the recipient; named packets name nobody else
                let pred = if is_recipient { m } else { anon == m };
                self.out.case("eskmatch", &[target.clone(), hx(kid.as_ref()), hx(fp.as_bytes())], &["esk-lookup".into(), cls.into(), target.clone(), who.into()], &(m as u8).to_string(), Some(pred),
                    &format!("{cls}-esk-{}-{}", if anon { "wildcard" } else { "named" }, who));
            }
        }
    }
}

/// raw (tag, body) of every fixed-length packet in a binary blob
fn split_packets(mut d: &[u8]) -> Vec<(u8, Vec<u8>)> {
    let mut out = Vec::new();
    while d.len() >= 2 {
        let h = d[0];
        if h & 0x80 == 0 { break; }
        let (tag, len, hl) = if h & 0x40 != 0 {
            let tag = h & 0x3f;
            match d[1] { l @ 0..=191 => (tag, l as usize, 2), l @ 192..=223 => { if d.len() < 3 { break; } (tag, ((l as usize - 192) << 8) + 192 + d[2] as usize, 3) } 255 => { if d.len() < 6 { break; } (tag, u32::from_be_bytes([d[2], d[3], d[4], d[5]]) as usize, 6) } _ => break }
        } else {
            let tag = (h >> 2) & 0x0f;
            match h & 3 { 0 => (tag, d[1] as usize, 2), 1 => { if d.len() < 3 { break; } (tag, u16::from_be_bytes([d[1], d[2]]) as usize, 3) } 2 => { if d.len() < 5 { break; } (tag, u32::from_be_bytes([d[1], d[2], d[3], d[4]]) as usize, 5) } _ => break }
        };
        if d.len() < hl + len { break; }
        out.push((tag, d[hl..hl + len].to_vec()));
        d = &d[hl + len..];
    }
    out
}

fn main() {
    quiet_panics();
    let cli = cli();
    let mut cx = Ctx { out: Out::new() };
    if cli.mode == "replay" { cx.out.finish(); return; }
    let thorough = cli.tier == "thorough";
    // generated keys: every algorithm x v4 / v6
    let mut kinds: Vec<(KeyVersion, KeyType)> = vec![
        (KeyVersion::V4, KeyType::Ed25519Legacy), (KeyVersion::V4, KeyType::ECDSA(ECCCurve::P256)), (KeyVersion::V4, KeyType::ECDSA(ECCCurve::P384)),
        (KeyVersion::V4, KeyType::ECDSA(ECCCurve::P521)), (KeyVersion::V4, KeyType::ECDSA(ECCCurve::Secp256k1)), (KeyVersion::V4, KeyType::Rsa(2048)),
        (KeyVersion::V4, KeyType::Ed25519), (KeyVersion::V6, KeyType::Ed25519), (KeyVersion::V6, KeyType::Ed448), (KeyVersion::V6, KeyType::ECDSA(ECCCurve::P256)),
    ];
    if thorough { kinds.push((KeyVersion::V6, KeyType::Rsa(3072))); }
    let seeds = if thorough { 30 } else { 4 };
    for (v, kt) in kinds {
        for seed in 0..seeds {
            if matches!(kt, KeyType::Rsa(_)) && seed > 0 { continue; }
            let r = guarded(|| gen_key(v, kt.clone(), 1300 + seed));
            let Ok(sk) = r else { continue; };
            let pk = SignedPublicKey::from(sk.clone());
            cx.cert(&pk, Some(&sk), "generated");
            if seed == 0 { cx.embedded(&sk, "generated"); }
        }
    }
    // keys with subkeys: embedding into PKESK
    for (v, seed) in [(KeyVersion::V4, 1u64), (KeyVersion::V6, 2)] {
        let sk = vh::keys::gen_key_with_subkey(v, seed);
        cx.cert(&SignedPublicKey::from(sk.clone()), Some(&sk), "generated-subkey");
        cx.embedded(&sk, "generated-subkey");
    }
    // signer != signee at every signing interface
    {
        let a4 = vh::keys::gen_key_with_subkey(KeyVersion::V4, 11); let b4 = vh::keys::gen_key_with_subkey(KeyVersion::V4, 12);
        let a6 = vh::keys::gen_key_with_subkey(KeyVersion::V6, 13); let b6 = vh::keys::gen_key_with_subkey(KeyVersion::V6, 14);
        cx.issuing_sites(&a4, &b4, "issuing-v4-v4"); cx.issuing_sites(&a6, &b6, "issuing-v6-v6");
        cx.issuing_sites(&a4, &b6, "issuing-v4-v6"); cx.issuing_sites(&a6, &b4, "issuing-v6-v4");
        let e = gen_key(KeyVersion::V4, KeyType::ECDSA(ECCCurve::P256), 15);
        cx.issuing_sites(&e, &b4, "issuing-ecdsa-v4");
        // the lookup side: which key a signature / a PKESK names
        cx.lookup(&a4, &b4, "v4-v4"); cx.lookup(&a6, &b6, "v6-v6"); cx.lookup(&a4, &b6, "v4-v6"); cx.lookup(&a6, &b4, "v6-v4");
    }
    // signing subkeys: the back signature (primary key binding, made by the subkey) embedded in the subkey binding
    // names the subkey as its issuer; the binding itself names the primary
    for (ver, kt, name) in [(KeyVersion::V4, KeyType::Ed25519Legacy, "v4"), (KeyVersion::V4, KeyType::ECDSA(ECCCurve::P256), "v4-p256"), (KeyVersion::V6, KeyType::Ed25519, "v6")] {
        use pgp::composed::{SecretKeyParamsBuilder, SubkeyParamsBuilder};
        let r = guarded(|| -> Option<SignedSecretKey> {
            let mut s = SubkeyParamsBuilder::default(); s.version(ver).key_type(kt.clone()).can_sign(true);
            let mut p = SecretKeyParamsBuilder::default();
            p.version(ver).key_type(kt.clone()).can_certify(true).can_sign(true).primary_user_id("backsig <b@example.org>".into()).subkeys(vec![s.build().ok()?]);
            p.build().ok()?.generate(Rng::new(1313)).ok()
        });
        let Ok(Some(k)) = r else { continue; };
        let v4 = ver == KeyVersion::V4;
        for (path, subs) in [("secret", k.secret_subkeys.iter().map(|s| (s.key.fingerprint(), s.key.legacy_key_id(), s.signatures.clone())).collect::<Vec<_>>()),
                             ("public", SignedPublicKey::from(k.clone()).public_subkeys.iter().map(|s| (s.key.fingerprint(), s.key.legacy_key_id(), s.signatures.clone())).collect::<Vec<_>>())] {
            for (sfp, sid, sigs) in subs {
                for sig in sigs {
                    let pfp = k.primary_key.fingerprint(); let pid = k.primary_key.legacy_key_id();
                    let binding_ok = { let f = sig.issuer_fingerprint(); !f.is_empty() && f.iter().all(|x| **x == pfp) } && sig.issuer_key_id().iter().all(|i| **i == pid) && (!v4 || !sig.issuer_key_id().is_empty());
                    cx.out.case("", &[], &["backsig".into(), name.into(), path.into(), "binding".into()], if binding_ok { "issuer=primary" } else { "issuer!=primary" }, Some(binding_ok), "issuing-subkey-binding");
                    match sig.embedded_signature() {
                        Some(b) => {
                            let ok = { let f = b.issuer_fingerprint(); !f.is_empty() && f.iter().all(|x| **x == sfp) } && b.issuer_key_id().iter().all(|i| **i == sid) && (!v4 || !b.issuer_key_id().is_empty());
                            cx.out.case("", &[], &["backsig".into(), name.into(), path.into(), "embedded".into()], if ok { "issuer=subkey" } else { "issuer!=subkey" }, Some(ok), "issuing-back-signature");
                        }
                        None => cx.out.case("", &[], &["backsig".into(), name.into(), path.into(), "embedded".into()], "no back signature", Some(false), "issuing-back-signature"),
                    }
                }
            }
        }
        // and the direct call
        if let Some(sub) = k.secret_subkeys.first() {
            let r = guarded(|| sub.key.sign_primary_key_binding(Rng::new(1), &k.primary_key.public_key(), &Password::empty()).ok());
            if let Ok(Some(b)) = r {
                let ok = { let f = b.issuer_fingerprint(); !f.is_empty() && f.iter().all(|x| **x == sub.key.fingerprint()) } && b.issuer_key_id().iter().all(|i| **i == sub.key.legacy_key_id()) && (!v4 || !b.issuer_key_id().is_empty());
                cx.out.case("", &[], &["backsig".into(), name.into(), "direct".into()], if ok { "issuer=subkey" } else { "issuer!=subkey" }, Some(ok), "issuing-back-signature");
            }
        }
    }
    // every key fixture of the repository, on the wire octets
    let mut files = Vec::new();
    fn walk(p: &std::path::Path, out: &mut Vec<std::path::PathBuf>) { if let Ok(rd) = std::fs::read_dir(p) { for e in rd.flatten() { let p = e.path(); if p.is_dir() { walk(&p, out); } else { out.push(p); } } } }
    walk(std::path::Path::new("/repo/tests"), &mut files);
    files.sort();
    let mut nfix = 0;
    for f in files {
        let Ok(data) = std::fs::read(&f) else { continue; };
        if data.len() > 200_000 { continue; }
        let name = f.file_name().and_then(|s| s.to_str()).unwrap_or("").to_string();
        // binary form of the file
        let bin: Vec<u8> = if data.starts_with(b"-----BEGIN PGP") {
            let r = guarded(|| { let mut d = pgp::armor::Dearmor::new(&data[..]); let mut o = Vec::new(); d.read_to_end(&mut o).map(|_| o) });
            match r { Ok(Ok(o)) => o, _ => continue }
        } else { data.clone() };
        let pkts = split_packets(&bin);
        let keys: Vec<&(u8, Vec<u8>)> = pkts.iter().filter(|(t, _)| matches!(t, 5 | 6 | 7 | 14)).collect();
        if keys.is_empty() { continue; }
        // library view of the same packets
        let parsed: Vec<Packet> = match guarded(|| PacketParser::new(&bin[..]).filter_map(|p| p.ok()).collect::<Vec<_>>()) { Ok(v) => v, Err(_) => continue };
        let mut ki = 0;
        for p in parsed {
            let (kd, tag): (Option<Box<dyn Fn(&mut Ctx, &[u8])>>, u8) = match p {
                Packet::PublicKey(k) => (Some(Box::new(move |cx: &mut Ctx, w: &[u8]| cx.key(&k, Some(w), "fixture"))), 6),
                Packet::PublicSubkey(k) => (Some(Box::new(move |cx: &mut Ctx, w: &[u8]| cx.key(&k, Some(w), "fixture"))), 14),
                Packet::SecretKey(k) => { let pk = k.public_key().clone(); (Some(Box::new(move |cx: &mut Ctx, _w: &[u8]| cx.key(&pk, None, "fixture-secret"))), 5) }
                Packet::SecretSubkey(k) => { let pk = k.public_key().clone(); (Some(Box::new(move |cx: &mut Ctx, _w: &[u8]| cx.key(&pk, None, "fixture-secret"))), 7) }
                _ => (None, 0),
            };
            if let Some(f) = kd {
                // align with the raw packet list (same order; skip on mismatch)
                while ki < keys.len() && keys[ki].0 != tag { ki += 1; }
                if ki < keys.len() { f(&mut cx, &keys[ki].1); ki += 1; nfix += 1; }
            }
        }
        let _ = name;
        if !thorough && nfix > 400 { break; }
    }
    let _ = Message::from_bytes(&b""[..]);

    // v2 / v3 key packets written by hand: every RSA algorithm octet (1 RSA, 2 encrypt-only, 3 sign-only), several moduli
    // (the fingerprint is MD5 over the MPI bodies of n and e, the key id the low 64 bits of n, whatever the octet says)
    let mut hrng = Rng::new(cli.seed ^ 0x13c);
    for ver in [3u8, 2] {
        for alg in [1u8, 2, 3] {
            for (nbits, e) in [(1024usize, vec![1u8, 0, 1]), (1023, vec![17]), (2048, vec![1, 0, 1]), (1030, vec![3])] {
                let mut n = hrng.bytes(nbits.div_ceil(8));
                let top = (nbits - 1) % 8; n[0] &= (1u16 << (top + 1)).wrapping_sub(1) as u8; n[0] |= 1 << top; *n.last_mut().unwrap() |= 1;
                let ebits = e.len() * 8 - e[0].leading_zeros() as usize;
                let mut body = vec![ver, 0x3b, 0x9a, 0xca, 0x00, 0, 0, alg];
                body.extend((nbits as u16).to_be_bytes()); body.extend_from_slice(&n);
                body.extend((ebits as u16).to_be_bytes()); body.extend_from_slice(&e);
                let mut pkt = vec![0x99u8]; pkt.extend((body.len() as u16).to_be_bytes()); pkt.extend_from_slice(&body);
                let parsed = guarded(|| match pgp::packet::PacketParser::new(&pkt[..]).next() { Some(Ok(pgp::packet::Packet::PublicKey(k))) => Some(k), _ => None }).ok().flatten();
                match parsed {
                    Some(k) => cx.key(&k, Some(&body), &format!("handmade-v{ver}-alg{alg}")),
                    None => cx.out.case("", &[], &["handmade-v3".into(), hx(&pkt)], "not accepted", Some(true), &format!("handmade-v{ver}-alg{alg}-not-accepted")),
                }
            }
        }
    }

    // v6 key packets with opaque material of a private algorithm (100), body lengths below, at and above 2^16: the v6
    // fingerprint frames the body with a FOUR-octet length
    for (tagname, tag) in [("primary", 6u8), ("subkey", 14u8)] {
        for mlen in [10usize, 300, 65525, 65526, 65527, 70000] {
            let material = hrng.bytes(mlen);
            let mut body = vec![6u8, 0x65, 0x53, 0xf1, 0x00, 100];
            body.extend((mlen as u32).to_be_bytes()); body.extend_from_slice(&material);
            let mut pkt = vec![0xC0 | tag, 255]; pkt.extend((body.len() as u32).to_be_bytes()); pkt.extend_from_slice(&body);
            let parsed = guarded(|| pgp::packet::PacketParser::new(&pkt[..]).next()).ok().flatten();
            match parsed {
                Some(Ok(pgp::packet::Packet::PublicKey(k))) => cx.key(&k, Some(&body), &format!("handmade-v6-opaque-{tagname}-{}", if body.len() >= 65536 { "64k" } else { "small" })),
                Some(Ok(pgp::packet::Packet::PublicSubkey(k))) => cx.key(&k, Some(&body), &format!("handmade-v6-opaque-{tagname}-{}", if body.len() >= 65536 { "64k" } else { "small" })),
                _ => cx.out.case("", &[], &["handmade-v6".into(), tagname.into(), mlen.to_string()], "not accepted", Some(true), "handmade-v6-opaque-not-accepted"),
            }
        }
    }
    // v4 keys whose parameters the library keeps as plain MPIs (ElGamal: p, g, y; DSA: p, q, g, y), one MPI written with 1, 2 or 5
    // leading zero octets (and the bit count to match): the key is the same key, so fingerprint and key id are those of its
    // canonical encoding, and the library's own serialisation parses back to the same identity
    {
        let mpi = |v: &[u8], zeros: usize| -> Vec<u8> { let bits = v.len() * 8 - v[0].leading_zeros() as usize + 8 * zeros; let mut o = (bits as u16).to_be_bytes().to_vec(); o.extend(std::iter::repeat(0u8).take(zeros)); o.extend_from_slice(v); o };
        for (alg, nmpi, name) in [(16u8, 3usize, "elgamal"), (17, 4, "dsa")] {
            let mut vals: Vec<Vec<u8>> = Vec::new();
            for i in 0..nmpi { let len = if i == 0 { 128 } else if alg == 17 && i == 1 { 20 } else if i == nmpi - 1 { 127 } else { 1 + i }; let mut v = hrng.bytes(len); v[0] |= 0x80; if i == 0 { *v.last_mut().unwrap() |= 1; } vals.push(v); }
            let body_of = |zeros_at: Option<(usize, usize)>| -> Vec<u8> { let mut b = vec![4u8, 0x3b, 0x9a, 0xca, 0x00, alg]; for (i, v) in vals.iter().enumerate() { b.extend(mpi(v, match zeros_at { Some((j, z)) if j == i => z, _ => 0 })); } b };
            let canon = body_of(None);
            for which in 0..nmpi { for zeros in [0usize, 1, 2, 5] {
                if zeros == 0 && which > 0 { continue; }
                let body = body_of(Some((which, zeros)));
                for tag in [6u8, 14] {
                    let mut pkt = vec![0xC0 | tag, 0xFF]; pkt.extend((body.len() as u32).to_be_bytes()); pkt.extend_from_slice(&body);
                    let parsed = guarded(|| PacketParser::new(&pkt[..]).next()).ok().flatten();
                    let cls = format!("handmade-v4-{name}-mpi{which}-zeros{zeros}");
                    let stable = |fp: &[u8], w: Vec<u8>| -> bool { let mut p2 = vec![0xC0 | tag, 0xFF]; p2.extend((w.len() as u32).to_be_bytes()); p2.extend_from_slice(&w); match PacketParser::new(&p2[..]).next() { Some(Ok(Packet::PublicKey(k2))) => k2.fingerprint().as_bytes() == fp, Some(Ok(Packet::PublicSubkey(k2))) => k2.fingerprint().as_bytes() == fp, _ => false } };
                    match parsed {
                        Some(Ok(Packet::PublicKey(k))) => { cx.key(&k, Some(&canon), &cls); let ok = guarded(|| stable(k.fingerprint().as_bytes(), k.to_bytes().unwrap_or_default())).unwrap_or(false); cx.out.case("", &[], &["handmade-mpi".into(), name.into(), which.to_string(), zeros.to_string(), tag.to_string()], if ok { "own serialisation parses back to the same fingerprint" } else { "fingerprint changes across the library's own serialisation" }, Some(ok), &format!("{cls}-stable")); }
                        Some(Ok(Packet::PublicSubkey(k))) => { cx.key(&k, Some(&canon), &cls); let ok = guarded(|| stable(k.fingerprint().as_bytes(), k.to_bytes().unwrap_or_default())).unwrap_or(false); cx.out.case("", &[], &["handmade-mpi".into(), name.into(), which.to_string(), zeros.to_string(), tag.to_string()], if ok { "own serialisation parses back to the same fingerprint" } else { "fingerprint changes across the library's own serialisation" }, Some(ok), &format!("{cls}-stable")); }
                        _ => cx.out.case("", &[], &["handmade-mpi".into(), name.into(), which.to_string(), zeros.to_string(), tag.to_string()], "not accepted", Some(true), &format!("{cls}-not-accepted")),
                    }
                }
            } }
        }
    }

    // the value types on their own: key ids with zero nibbles in every position, the wildcard, fingerprints with leading zeros
    {
        for pat in [[0u8; 8], [0, 0, 0, 0, 0, 0, 0, 1], [0x03, 0x16, 0x5d, 0xcf, 0x16, 0x14, 0x1b, 0x37], [0x0f, 0xff, 0xff, 0xff, 0xff, 0xff, 0xff, 0xf0], [0xf0, 0, 0, 0, 0, 0, 0, 0x0f], [0x10, 0x01, 0x10, 0x01, 0x10, 0x01, 0x10, 0x01]] {
            let kid = pgp::types::KeyId::from(pat);
            let mut fpb = vec![0u8, 0x0a]; fpb.extend_from_slice(&[0x11; 10]); fpb.extend_from_slice(&pat);
            if let Ok(fp) = pgp::types::Fingerprint::new(KeyVersion::V4, &fpb) { cx.reported(&fp, &kid, "value-types"); }
        }
    }

    // the lookup side for a v3 key: its key id is the low 64 bits of the modulus, not a slice of its (MD5) fingerprint.  The RSA
    // material of a generated v4 key is reframed as a v3 public key; the v4 secret key makes v4 signatures that name the
    // v3 key id / another key id / nobody; verification under the v3 key succeeds exactly when the signature names it
    {
        use pgp::packet::{SignatureConfig, SignatureType, Subpacket, SubpacketData};
        use pgp::types::{KeyDetails as KD, Timestamp};
        if let Ok(sk) = guarded(|| gen_key(KeyVersion::V4, KeyType::Rsa(2048), 1391)) {
            let v3pub = guarded(|| -> Option<pgp::packet::PublicKey> {
                let PublicParams::RSA(p) = sk.primary_key.public_key().public_params().clone() else { return None };
                use rsa::traits::PublicKeyParts;
                let n = p.key.n().to_bytes_be(); let e = p.key.e().to_bytes_be();
                let bits = |v: &[u8]| v.len() * 8 - v[0].leading_zeros() as usize;
                let mut body = vec![3u8, 0x3b, 0x9a, 0xca, 0x00, 0, 0, 1];
                body.extend((bits(&n) as u16).to_be_bytes()); body.extend_from_slice(&n);
                body.extend((bits(&e) as u16).to_be_bytes()); body.extend_from_slice(&e);
                let mut pkt = vec![0x99u8]; pkt.extend((body.len() as u16).to_be_bytes()); pkt.extend_from_slice(&body);
                match PacketParser::new(&pkt[..]).next() { Some(Ok(Packet::PublicKey(k))) => Some(k), _ => None }
            }).ok().flatten();
            if let Some(v3pub) = v3pub {
                let data = b"lookup-v3".to_vec();
                let own = v3pub.legacy_key_id(); let other = sk.primary_key.legacy_key_id();
                for (kc, unhashed) in [(0u8, false), (1, false), (1, true), (2, false), (2, true), (3, false)] {
                    let kids: Vec<pgp::types::KeyId> = match kc { 0 => vec![], 1 => vec![own], 2 => vec![other], _ => vec![other, own] };
                    let r = guarded(|| -> Option<bool> {
                        let mut c = SignatureConfig::v4(SignatureType::Binary, sk.primary_key.algorithm(), pgp::crypto::hash::HashAlgorithm::Sha256);
                        let issuer: Vec<Subpacket> = kids.iter().filter_map(|k| Subpacket::regular(SubpacketData::IssuerKeyId(*k)).ok()).collect();
                        c.hashed_subpackets = vec![Subpacket::regular(SubpacketData::SignatureCreationTime(Timestamp::from_secs(1_700_000_000))).ok()?];
                        if unhashed { c.unhashed_subpackets = issuer; } else { c.hashed_subpackets.extend(issuer); }
                        let sig = c.sign(&sk.primary_key, &Password::empty(), &data[..]).ok()?;
                        Some(sig.verify(&v3pub, &data[..]).is_ok())
                    });
                    let names_own = kc == 1 || kc == 3; let names_nobody = kc == 0;
                    let (imp, pred) = match r { Ok(Some(ok)) => ((ok as u8).to_string(), Some(if names_own || names_nobody { ok } else { !ok })), Ok(None) => ("n/a".to_string(), Some(false)), Err(p) => (p, Some(false)) };
                    let l = |v: Vec<String>| if v.is_empty() { "_".to_string() } else { v.join(",") };
                    cx.out.case("sigmatch", &[l(kids.iter().map(|k| hx(k.as_ref())).collect()), "_".into(), hx(own.as_ref()), hx(v3pub.fingerprint().as_bytes())],
                        &["lookup-v3".into(), kc.to_string(), (unhashed as u8).to_string()], &imp, pred, &format!("v3-lookup-{}", if names_nobody { "nobody" } else if names_own { "own" } else { "foreign" }));
                }
            } else { cx.out.case("", &[], &["lookup-v3".into()], "v3 key not constructible", Some(false), "v3-lookup-unavailable"); }
        }
    }
    cx.out.finish();
}
