use pgp::composed::{ArmorOptions, CleartextSignedMessage, KeyType};
use pgp::types::{KeyVersion, Password};
use vh::keys::gen_key;
use vh::Rng;
fn main() {
    let real = gen_key(KeyVersion::V4, KeyType::Ed25519Legacy, 16);
    let msg = CleartextSignedMessage::sign(Rng::new(5), "hello\n", &*real, &Password::empty()).unwrap();
    let arm = msg.to_armored_string(ArmorOptions::default()).unwrap();
    println!("{arm}");
    println!("{:?}", CleartextSignedMessage::from_string(&arm).map(|(m, _)| m.text().to_string()).map_err(|e| e.to_string()));
}
