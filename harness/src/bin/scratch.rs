use std::io::Read;
use pgp::armor::{self, BlockType, Dearmor};
use std::collections::BTreeMap;
struct Src(Vec<u8>);
impl pgp::ser::Serialize for Src {
    fn to_writer<W: std::io::Write>(&self, w: &mut W) -> pgp::errors::Result<()> { w.write_all(&self.0)?; Ok(()) }
    fn write_len(&self) -> usize { self.0.len() }
}
fn main() {
    let vals = ["", "x", "GnuPG v2", "foo: bar", "ends with colon:", ":", " lead", "h\u{e9}llo", "a  b ", "https://example.org/x?y=1", "-----"];
    let keys = ["Version", "X-a:b", "Key With Space"];
    for k in keys { for v in vals {
        let mut h: BTreeMap<String, Vec<String>> = BTreeMap::new();
        h.insert(k.into(), vec![v.into()]);
        let mut out = Vec::new();
        armor::write(&Src(b"hello".to_vec()), BlockType::Message, &mut out, Some(&h), true).unwrap();
        let mut d = Dearmor::new(&out[..]);
        let mut data = Vec::new();
        let r = d.read_to_end(&mut data);
        println!("{:?} {:?} -> {:?} {:?}", k, v, r.map_err(|e| e.to_string()), d.headers);
    }}
}
