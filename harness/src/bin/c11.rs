//! C11: signed digests are exactly those RFC 9580 5.2.4 prescribes.
use pgp::composed::KeyType;
use pgp::crypto::hash::HashAlgorithm;
use pgp::packet::{Notation, Packet, PacketParser, PublicKey, PublicSubkey, Signature, SignatureConfig, SignatureType, Subpacket, SubpacketData, UserAttribute, UserId};
use pgp::ser::Serialize;
use pgp::types::{KeyDetails, KeyVersion, PacketHeaderVersion, Password, SignatureBytes, Tag, Timestamp};
use vh::keys::{gen_key, gen_key_with_subkey, RecKey};
use vh::*;

struct Ctx { out: Out, rng: Rng }

/// harness-side statement of RFC 9580 5.2.4 (direct predicate; the Coq transcription is the model)
fn rfc_digest(v: u8, typ: u8, pka: u8, hash: HashAlgorithm, area: &[u8], salt: &[u8], subject: &[u8]) -> Option<Vec<u8>> {
    use digest::Digest;
    let mut pre = Vec::new();
    if v == 6 { pre.extend_from_slice(salt); }
    pre.extend_from_slice(subject);
    let mut fields = vec![v, typ, pka, u8::from(hash)];
    if v == 6 { fields.extend((area.len() as u32).to_be_bytes()); } else { fields.extend((area.len() as u16).to_be_bytes()); }
    fields.extend_from_slice(area);
    pre.extend_from_slice(&fields);
    pre.extend([v, 0xff]); pre.extend((fields.len() as u32).to_be_bytes());
    Some(match hash {
        HashAlgorithm::Sha256 => sha2::Sha256::digest(&pre).to_vec(), HashAlgorithm::Sha384 => sha2::Sha384::digest(&pre).to_vec(),
        HashAlgorithm::Sha512 => sha2::Sha512::digest(&pre).to_vec(), HashAlgorithm::Sha224 => sha2::Sha224::digest(&pre).to_vec(),
        HashAlgorithm::Sha3_256 => sha3::Sha3_256::digest(&pre).to_vec(), HashAlgorithm::Sha3_512 => sha3::Sha3_512::digest(&pre).to_vec(),
        _ => return None,
    })
}

fn key_frame(version: KeyVersion, body: &[u8]) -> Vec<u8> {
    let mut v = Vec::new();
    if version == KeyVersion::V6 { v.push(0x9b); v.extend((body.len() as u32).to_be_bytes()); } else { v.push(0x99); v.extend((body.len() as u16).to_be_bytes()); }
    v.extend_from_slice(body); v
}
fn canon_text(d: &[u8]) -> Vec<u8> { let mut o = Vec::new(); let mut p = false; for &b in d { if b == 10 && !p { o.push(13); } o.push(b); p = b == 13; } o }

fn kv(v: KeyVersion) -> u8 { match v { KeyVersion::V6 => 6, KeyVersion::V4 => 4, KeyVersion::V3 => 3, KeyVersion::V2 => 2, _ => 0 } }
fn hash_id(h: HashAlgorithm) -> u8 { h.into() }

impl Ctx {
    fn hashed_area(&mut self, rk: &RecKey, variant: u64) -> Vec<Subpacket> {
        let mut v = Vec::new();
        let mk = |d| Subpacket::regular(d).unwrap();
        if variant % 2 == 1 { v.push(mk(SubpacketData::SignatureCreationTime(Timestamp::from_secs(1_600_000_000 + (variant as u32))))); }
        if variant % 3 != 0 { v.push(mk(SubpacketData::IssuerFingerprint(rk.fingerprint()))); }
        match variant % 7 {
            1 => v.push(mk(SubpacketData::PolicyURI("https://example.org/policy".into()))),
            2 => v.push(mk(SubpacketData::Notation(Notation { readable: true, name: "n@example.org".into(), value: self.rng.bytes(200).into() }))),
            3 => v.push(mk(SubpacketData::Notation(Notation { readable: false, name: "big@example.org".into(), value: self.rng.bytes(if variant % 2 == 0 { 9000 } else { 60000 }).into() }))),
            4 => { v.push(mk(SubpacketData::IsPrimary(true))); v.push(Subpacket::critical(SubpacketData::SignatureCreationTime(Timestamp::from_secs(77))).unwrap()); }
            5 => v.push(mk(SubpacketData::Other(99, self.rng.bytes(17).into()))),
            6 => v.push(mk(SubpacketData::SignersUserID("someone".into()))),
            _ => {}
        }
        v
    }

    /// hashed area of exactly `target` octets (one big notation subpacket plus a creation time)
    fn hashed_area_sized(&mut self, target: usize) -> Vec<Subpacket> {
        let mk = |n: usize| -> Vec<Subpacket> {
            let mut v = vec![Subpacket::regular(SubpacketData::SignatureCreationTime(Timestamp::from_secs(1_600_000_000))).unwrap()];
            // a notation value has a two-octet length: split large sizes over two notations
            let (a, b) = if n > 60000 { (60000, n - 60000) } else { (n, 0) };
            v.push(Subpacket::regular(SubpacketData::Notation(Notation { readable: false, name: "size@example.org".into(), value: vec![0x5a; a].into() })).unwrap());
            if n > 60000 { v.push(Subpacket::regular(SubpacketData::Notation(Notation { readable: false, name: "more@example.org".into(), value: vec![0x5b; b].into() })).unwrap()); }
            v
        };
        let size = |v: &Vec<Subpacket>| -> usize { let mut a = Vec::new(); for sp in v { if sp.to_writer(&mut a).is_err() { return 0; } } a.len() };
        let mut n = target.saturating_sub(40);
        for _ in 0..6 {
            let s = size(&mk(n));
            if s == target { break; }
            n = (n as i64 + target as i64 - s as i64).max(0) as usize;
        }
        mk(n)
    }

    fn config(&mut self, rk: &RecKey, typ: SignatureType, hash: HashAlgorithm, variant: u64) -> Option<(SignatureConfig, Vec<u8>, Vec<u8>)> {
        // variants >= 1_000_000 ask for an exact hashed-area size
        let hashed = if variant >= 1_000_000 { self.hashed_area_sized((variant - 1_000_000) as usize) } else { self.hashed_area(rk, variant) };
        let mut area = Vec::new();
        for sp in &hashed { sp.to_writer(&mut area).ok()?; }
        let mut cfg = match rk.version() {
            KeyVersion::V6 => SignatureConfig::v6(Rng::new(self.rng.next()), typ, rk.algorithm(), hash).ok()?,
            _ => SignatureConfig::v4(typ, rk.algorithm(), hash),
        };
        cfg.hashed_subpackets = hashed;
        let salt = match &cfg.version_specific { pgp::packet::SignatureVersionSpecific::V6 { salt } => salt.clone(), _ => vec![] };
        Some((cfg, area, salt))
    }

    #[allow(clippy::too_many_arguments)]
    fn emit(&mut self, rk: &RecKey, typ: u8, hash: HashAlgorithm, area: &[u8], salt: &[u8], subject: String, d_sign: Option<Vec<u8>>, d_verify: Option<Vec<u8>>, verified: bool, cls: &str) {
        self.emit2(rk, typ, hash, area, salt, subject, None, d_sign, d_verify, verified, cls)
    }
    #[allow(clippy::too_many_arguments)]
    fn emit2(&mut self, rk: &RecKey, typ: u8, hash: HashAlgorithm, area: &[u8], salt: &[u8], subject: String, subject_octets: Option<Vec<u8>>, d_sign: Option<Vec<u8>>, d_verify: Option<Vec<u8>>, verified: bool, cls: &str) {
        let v = kv(rk.version());
        let pka: u8 = rk.algorithm().into();
        let imp = match (&d_sign, &d_verify) {
            (Some(a), Some(b)) => format!("{} {} {}", hx(a), hx(b), verified as u8),
            (Some(a), None) => format!("{} - {}", hx(a), verified as u8),
            _ => "ERR".to_string(),
        };
        let mut pred = d_sign.is_some() && d_sign == d_verify && verified;
        if let Some(so) = subject_octets {
            if let Some(want) = rfc_digest(v, typ, pka, hash, area, salt, &so) { pred = pred && d_sign.as_ref() == Some(&want); }
        }
        self.out.case("preimage", &[v.to_string(), typ.to_string(), pka.to_string(), hash_id(hash).to_string(), hx(area), hx(salt), subject], &[], &imp, Some(pred), cls);
    }

    fn documents(&mut self, rk: &RecKey, hash: HashAlgorithm, variant: u64) {
        for (typ, tm) in [(SignatureType::Binary, 0u8), (SignatureType::Text, 1)] {
            let n = *self.rng.pick(&[0usize, 1, 5, 100, 9000]);
            let doc: Vec<u8> = (0..n).map(|_| *self.rng.pick(b"ab \r\n\nxyz")).collect();
            let Some((cfg, area, salt)) = self.config(rk, typ, hash, variant) else { continue; };
            rk.clear();
            let r = guarded(|| cfg.sign(rk, &Password::empty(), &doc[..]));
            let (ds, dv, ok) = match r {
                Ok(Ok(sig)) => { let ds = rk.last(); rk.clear(); let ok = sig.verify(rk, &doc[..]).is_ok(); (ds, rk.last(), ok) }
                _ => (None, None, false),
            };
            let so = if tm == 1 { canon_text(&doc) } else { doc.clone() };
            self.emit2(rk, typ.into(), hash, &area, &salt, format!("doc:{tm}:{}", hx(&doc)), Some(so.clone()), ds.clone(), dv, ok, "document");
            // the same document fed to the public streaming hasher (SignatureConfig::into_hasher) in pieces, among them empty
            // ones: the digest signed is the digest of the document, whatever the writes were
            for sched in 0..3u64 {
                if n == 0 && sched > 0 { continue; }
                if let Some((cfg3, area3, salt3)) = self.config(rk, typ, hash, variant) {
                    use std::io::Write;
                    let mut pieces: Vec<&[u8]> = Vec::new();
                    match sched {
                        // cut after every CR (or once in the middle) with an empty write at every cut
                        0 => { let mut at = 0; for i in 0..doc.len() { if doc[i] == 13 && i + 1 < doc.len() { pieces.push(&doc[at..=i]); pieces.push(&doc[0..0]); at = i + 1; } } pieces.push(&doc[at..]); }
                        // one octet at a time for short documents, empty writes in between
                        1 => { if doc.len() <= 100 { for i in 0..doc.len() { pieces.push(&doc[i..=i]); if i % 2 == 0 { pieces.push(&doc[0..0]); } } } else { let m = doc.len() / 2; pieces.push(&doc[..m]); pieces.push(&doc[0..0]); pieces.push(&doc[m..]); } }
                        _ => { pieces.push(&doc[0..0]); pieces.push(&doc[..]); pieces.push(&doc[0..0]); }
                    }
                    rk.clear();
                    let r = guarded(|| -> Option<bool> {
                        let mut h = cfg3.into_hasher().ok()?;
                        for p in &pieces { if p.is_empty() { h.write(p).ok()?; } else { h.write_all(p).ok()?; } }
                        let sig = h.sign(rk, &Password::empty()).ok()?;
                        let ds3 = rk.last();
                        rk.clear();
                        let ok = sig.verify(rk, &doc[..]).is_ok();
                        Some((ds3, rk.last(), ok)).map(|(a, b, ok)| { self.emit2(rk, typ.into(), hash, &area3, &salt3, format!("doc:{tm}:{}", hx(&doc)), Some(so.clone()), a, b, ok, "document-streamed-hasher"); true })
                    });
                    if !matches!(r, Ok(Some(true))) { self.out.case("", &[], &["streamed-hasher".into(), tm.to_string(), sched.to_string(), hx(&doc)], "no signature", Some(false), "document-streamed-hasher-failed"); }
                }
            }
            // the same signature inside a message: prefix form (signature packet, then literal data) ...
            if let Some((cfg2, area2, salt2)) = self.config(rk, typ, hash, variant) {
                use pgp::packet::PacketTrait;
                rk.clear();
                if let Ok(Ok(sig)) = guarded(|| cfg2.sign(rk, &Password::empty(), &doc[..])) {
                    let ds2 = rk.last();
                    let lit = pgp::packet::LiteralData::from_bytes("", doc.clone().into()).unwrap();
                    let mut m = Vec::new();
                    sig.to_writer_with_header(&mut m).unwrap();
                    lit.to_writer_with_header(&mut m).unwrap();
                    rk.clear();
                    let okm = guarded(|| { use std::io::Read; let mut msg = pgp::composed::Message::from_bytes(&m[..]).ok()?; let mut o = Vec::new(); msg.read_to_end(&mut o).ok()?; Some(msg.verify(rk).is_ok()) }).ok().flatten().unwrap_or(false);
                    let dvm = rk.last();
                    self.emit2(rk, typ.into(), hash, &area2, &salt2, format!("doc:{tm}:{}", hx(&doc)), Some(so.clone()), ds2, dvm, okm, "document-prefix-message");
                }
            }
            // ... and one-pass form through the builder (signing digest seen by the recording key, verified by the reader)
            {
                use pgp::composed::MessageBuilder;
                rk.clear();
                let r = guarded(|| -> Option<(Vec<u8>, Option<Vec<u8>>)> {
                    let mut b = MessageBuilder::from_bytes("", doc.clone());
                    if tm == 1 { b.sign_text(); } else { b.sign_binary(); }
                    b.sign(rk, Password::empty(), hash);
                    let bytes = b.to_vec(Rng::new(21)).ok()?;
                    Some((bytes, rk.last()))
                });
                if let Ok(Some((bytes, dsb))) = r {
                    rk.clear();
                    let okm = guarded(|| { use std::io::Read; let mut msg = pgp::composed::Message::from_bytes(&bytes[..]).ok()?; let mut o = Vec::new(); msg.read_to_end(&mut o).ok()?; Some(msg.verify(rk).is_ok()) }).ok().flatten().unwrap_or(false);
                    let dvb = rk.last();
                    let imp = format!("{} {}", dsb.as_ref().map(|d| hx(d)).unwrap_or("-".into()), okm as u8);
                    self.out.case("", &[], &["onepass".into(), tm.to_string(), hx(&doc)], &imp, Some(dsb.is_some() && dsb == dvb && okm), "document-onepass-message");
                }
            }
        }
    }

    fn certifications(&mut self, rk: &RecKey, pubkey: &PublicKey, hash: HashAlgorithm, variant: u64) {
        let body = pubkey.to_bytes().unwrap();
        for typ in [SignatureType::CertGeneric, SignatureType::CertPersona, SignatureType::CertCasual, SignatureType::CertPositive, SignatureType::CertRevocation] {
            // user id
            let idlen = *self.rng.pick(&[0usize, 1, 20, 300, 70000]);
            let idstr: String = (0..idlen).map(|_| *self.rng.pick(&['a', 'b', ' ', '<', '>', '@'])).collect();
            let uid = UserId::from_str(PacketHeaderVersion::New, &idstr).unwrap();
            let Some((cfg, area, salt)) = self.config(rk, typ, hash, variant) else { continue; };
            rk.clear();
            let r = guarded(|| cfg.sign_certification(rk, pubkey, &Password::empty(), Tag::UserId, &uid));
            let (ds, dv, ok) = match r {
                Ok(Ok(sig)) => { let ds = rk.last(); rk.clear(); let ok = sig.verify_certification(rk, Tag::UserId, &uid).is_ok(); (ds, rk.last(), ok) }
                _ => (None, None, false),
            };
            self.emit(rk, typ.into(), hash, &area, &salt, format!("keyid:{}:{}:13:{}", kv(pubkey.version()), hx(&body), hx(idstr.as_bytes())), ds, dv, ok, "certification-uid");
            // user attribute (image)
            if matches!(typ, SignatureType::CertPositive | SignatureType::CertRevocation) {
                let il = *self.rng.pick(&[10usize, 300]); let img = self.rng.bytes(il);
                let Ok(ua) = UserAttribute::new_image(img.into()) else { continue; };
                let uab = ua.to_bytes().unwrap();
                let Some((cfg, area, salt)) = self.config(rk, typ, hash, variant + 1) else { continue; };
                rk.clear();
                let r = guarded(|| cfg.sign_certification(rk, pubkey, &Password::empty(), Tag::UserAttribute, &ua));
                let (ds, dv, ok) = match r {
                    Ok(Ok(sig)) => { let ds = rk.last(); rk.clear(); let ok = sig.verify_certification(rk, Tag::UserAttribute, &ua).is_ok(); (ds, rk.last(), ok) }
                    _ => (None, None, false),
                };
                self.emit(rk, typ.into(), hash, &area, &salt, format!("keyid:{}:{}:17:{}", kv(pubkey.version()), hx(&body), hx(&uab)), ds, dv, ok, "certification-attr");
                // attributes as RECEIVED: the subpacket length spelled in every form the format allows (GnuPG writes the five-octet
                // form for photo ids above 8383 octets); what is digested is the packet body that was received
                for (form, il) in [(1u8, 40usize), (2, 40), (5, 40), (2, 300), (5, 300), (5, 9000)] {
                    let img = self.rng.bytes(il);
                    let mut sp = vec![1u8, 0x10, 0x00, 0x01, 0x01]; sp.extend([0u8; 12]); sp.extend_from_slice(&img);
                    let n = sp.len();
                    if (form == 2 && n < 192) || (form == 1 && n >= 192) { continue; }
                    let mut wire: Vec<u8> = match form { 1 => vec![n as u8], 2 => vec![(((n - 192) >> 8) + 192) as u8, ((n - 192) & 0xff) as u8], _ => { let mut v = vec![0xFF]; v.extend((n as u32).to_be_bytes()); v } };
                    wire.extend_from_slice(&sp);
                    let mut pkt = vec![0xC0 | 17, 0xFF]; pkt.extend((wire.len() as u32).to_be_bytes()); pkt.extend_from_slice(&wire);
                    let Some(Ok(Packet::UserAttribute(ua))) = guarded(|| PacketParser::new(&pkt[..]).next()).ok().flatten() else { continue; };
                    let Some((cfg, area, salt)) = self.config(rk, typ, hash, variant + 2 + form as u64) else { continue; };
                    rk.clear();
                    let r = guarded(|| cfg.sign_certification(rk, pubkey, &Password::empty(), Tag::UserAttribute, &ua));
                    let (ds, dv, ok) = match r {
                        Ok(Ok(sig)) => { let ds = rk.last(); rk.clear(); let ok = sig.verify_certification(rk, Tag::UserAttribute, &ua).is_ok(); (ds, rk.last(), ok) }
                        _ => (None, None, false),
                    };
                    self.emit(rk, typ.into(), hash, &area, &salt, format!("keyid:{}:{}:17:{}", kv(pubkey.version()), hx(&body), hx(&wire)), ds, dv, ok, &format!("certification-attr-received-len{form}"));
                }
            }
        }
    }

    fn bindings(&mut self, rk: &RecKey, rk_sub: &RecKey, pubkey: &PublicKey, subkey: &PublicSubkey, hash: HashAlgorithm, variant: u64) {
        let pb = pubkey.to_bytes().unwrap();
        let sb = subkey.to_bytes().unwrap();
        let subj = format!("keys:{}:{}:{}:{}", kv(pubkey.version()), hx(&pb), kv(subkey.version()), hx(&sb));
        for typ in [SignatureType::SubkeyBinding, SignatureType::SubkeyRevocation] {
            let Some((cfg, area, salt)) = self.config(rk, typ, hash, variant) else { continue; };
            rk.clear();
            let r = guarded(|| cfg.sign_subkey_binding(rk, pubkey, &Password::empty(), subkey));
            let (ds, dv, ok) = match r {
                Ok(Ok(sig)) => { let ds = rk.last(); rk.clear(); let ok = sig.verify_subkey_binding(rk, subkey).is_ok(); (ds, rk.last(), ok) }
                _ => (None, None, false),
            };
            self.emit(rk, typ.into(), hash, &area, &salt, subj.clone(), ds, dv, ok, "subkey-binding");
        }
        // primary key binding: signed by the subkey
        let Some((cfg, area, salt)) = self.config(rk_sub, SignatureType::KeyBinding, hash, variant) else { return; };
        rk_sub.clear();
        let r = guarded(|| cfg.sign_primary_key_binding(rk_sub, subkey, &Password::empty(), pubkey));
        let (ds, dv, ok) = match r {
            Ok(Ok(sig)) => { let ds = rk_sub.last(); rk_sub.clear(); let ok = sig.verify_primary_key_binding(rk_sub, pubkey).is_ok(); (ds, rk_sub.last(), ok) }
            _ => (None, None, false),
        };
        self.emit(rk_sub, SignatureType::KeyBinding.into(), hash, &area, &salt, subj, ds, dv, ok, "primary-key-binding");
    }

    fn direct(&mut self, rk: &RecKey, pubkey: &PublicKey, hash: HashAlgorithm, variant: u64) {
        let pb = pubkey.to_bytes().unwrap();
        for typ in [SignatureType::Key, SignatureType::KeyRevocation] {
            let Some((cfg, area, salt)) = self.config(rk, typ, hash, variant) else { continue; };
            rk.clear();
            let r = guarded(|| cfg.sign_key(rk, &Password::empty(), pubkey));
            let (ds, dv, ok) = match r {
                Ok(Ok(sig)) => { let ds = rk.last(); rk.clear(); let ok = sig.verify_key(rk).is_ok(); (ds, rk.last(), ok) }
                _ => (None, None, false),
            };
            self.emit2(rk, typ.into(), hash, &area, &salt, format!("key:{}:{}", kv(pubkey.version()), hx(&pb)), Some(key_frame(pubkey.version(), &pb)), ds, dv, ok, "direct-key");
        }
    }


    /// v3 signatures over keys and user ids / attributes (RFC 9580 5.2.4: the id is hashed bare, without the 0xB4 / 0xD1
    /// prefix and length of v4; no trailer): verification only, through every entry point that takes such a signature
    fn v3_key_sigs(&mut self, rk: &RecKey, rk_sub: &RecKey, pubkey: &PublicKey, subkey: &pgp::packet::PublicSubkey, hash: HashAlgorithm) {
        use digest::Digest;
        let body = pubkey.to_bytes().unwrap();
        let sbody = subkey.to_bytes().unwrap();
        let frame = |b: &[u8]| -> Vec<u8> { let mut o = vec![0x99u8]; o.extend((b.len() as u16).to_be_bytes()); o.extend_from_slice(b); o };
        let dg = |pre: &[u8]| -> Vec<u8> { match hash { HashAlgorithm::Sha256 => sha2::Sha256::digest(pre).to_vec(), HashAlgorithm::Sha1 => sha1::Sha1::digest(pre).to_vec(), _ => sha2::Sha512::digest(pre).to_vec() } };
        let pka: u8 = rk.algorithm().into();
        let idstr: String = (0..*self.rng.pick(&[0usize, 1, 20, 300])).map(|_| *self.rng.pick(&['a', 'b', ' ', '<', '>', '@', '\u{e9}'])).collect();
        let uid = UserId::from_str(PacketHeaderVersion::New, &idstr).unwrap();
        let img = self.rng.bytes(40);
        let ua = UserAttribute::new_image(img.into()).unwrap();
        let uab = ua.to_bytes().unwrap();
        // (type, subject octets as the harness states them, subject for the model, signer, verification)
        type V<'x> = Box<dyn Fn(&Signature) -> bool + 'x>;
        let mut jobs: Vec<(SignatureType, Vec<u8>, String, &RecKey, V, &str)> = Vec::new();
        for typ in [SignatureType::CertGeneric, SignatureType::CertPersona, SignatureType::CertCasual, SignatureType::CertPositive, SignatureType::CertRevocation] {
            let mut subj = frame(&body); subj.extend_from_slice(idstr.as_bytes());
            jobs.push((typ, subj.clone(), format!("keyid:{}:{}:13:{}", kv(pubkey.version()), hx(&body), hx(idstr.as_bytes())), rk, Box::new(|s: &Signature| s.verify_certification(rk, Tag::UserId, &uid).is_ok()), "v3-cert-uid"));
            jobs.push((typ, subj, format!("keyid:{}:{}:13:{}", kv(pubkey.version()), hx(&body), hx(idstr.as_bytes())), rk, Box::new(|s: &Signature| s.verify_third_party_certification(pubkey, rk, Tag::UserId, &uid).is_ok()), "v3-cert-uid-third-party-entry"));
            let mut subj = frame(&body); subj.extend_from_slice(&uab);
            jobs.push((typ, subj, format!("keyid:{}:{}:17:{}", kv(pubkey.version()), hx(&body), hx(&uab)), rk, Box::new(|s: &Signature| s.verify_certification(rk, Tag::UserAttribute, &ua).is_ok()), "v3-cert-attr"));
        }
        for typ in [SignatureType::Key, SignatureType::KeyRevocation] {
            jobs.push((typ, frame(&body), format!("key:{}:{}", kv(pubkey.version()), hx(&body)), rk, Box::new(|s: &Signature| s.verify_key(rk).is_ok()), "v3-key"));
        }
        for typ in [SignatureType::SubkeyBinding, SignatureType::SubkeyRevocation] {
            let mut subj = frame(&body); subj.extend(frame(&sbody));
            jobs.push((typ, subj, format!("keys:{}:{}:{}:{}", kv(pubkey.version()), hx(&body), kv(subkey.version()), hx(&sbody)), rk, Box::new(|s: &Signature| s.verify_subkey_binding(rk, subkey).is_ok()), "v3-subkey-binding"));
        }
        let _ = rk_sub; // (a v3 back signature would need a signing-capable subkey of a v3 key: not generated)
        for (typ, subj, msubj, signer, verify, cls) in jobs {
            let created = 900_000_000u32 + self.rng.below(100_000) as u32;
            let mut pre = subj.clone(); pre.push(typ.into()); pre.extend(created.to_be_bytes());
            let d = dg(&pre);
            let Some(sigb) = signer.sign_raw(&d) else { continue; };
            let cfg = SignatureConfig::v3(typ, signer.algorithm(), hash, Timestamp::from_secs(created), signer.legacy_key_id());
            let Ok(sig) = Signature::from_config(cfg, [d[0], d[1]], sigb) else { continue; };
            // through the wire as well: what is verified is what a reader would get
            let sig = Packet::from(sig.clone()).to_bytes().ok().and_then(|b| match PacketParser::new(&b[..]).next() { Some(Ok(Packet::Signature(s2))) => Some(s2), _ => None }).unwrap_or(sig);
            signer.clear();
            let ok = guarded(|| verify(&sig)).unwrap_or(false);
            let dv = signer.last();
            let imp = match &dv { Some(x) => format!("{} {}", hx(x), ok as u8), None => "ERR".into() };
            self.out.case("preimage3", &[u8::from(typ).to_string(), created.to_string(), pka.to_string(), hash_id(hash).to_string(), msubj], &[], &imp, Some(ok), cls);
        }
    }

    /// v3 signatures: verification only
    fn v3(&mut self, rk: &RecKey, hash: HashAlgorithm) {
        use digest::Digest;
        for (typ, tm) in [(SignatureType::Binary, 0u8), (SignatureType::Text, 1)] {
            let doc: Vec<u8> = (0..40).map(|_| *self.rng.pick(b"ab \r\n\nxyz")).collect();
            let created = 1_000_000_000u32 + self.rng.below(1000) as u32;
            let cfg = SignatureConfig::v3(typ, rk.algorithm(), hash, Timestamp::from_secs(created), rk.legacy_key_id());
            // the two check octets: harness-side statement of the v3 pre-image
            let mut pre: Vec<u8> = if tm == 1 { let mut o = Vec::new(); let mut p = false; for &b in &doc { if b == 10 && !p { o.push(13); } o.push(b); p = b == 13; } o } else { doc.clone() };
            pre.push(typ.into()); pre.extend(created.to_be_bytes());
            let dg: Vec<u8> = match hash { HashAlgorithm::Sha256 => sha2::Sha256::digest(&pre).to_vec(), HashAlgorithm::Sha1 => sha1::Sha1::digest(&pre).to_vec(), _ => sha2::Sha512::digest(&pre).to_vec() };
            let sigb = match rk.sign_raw(&dg) { Some(s) => s, None => continue };
            let Ok(sig) = Signature::from_config(cfg, [dg[0], dg[1]], sigb) else { continue; };
            rk.clear();
            let ok = guarded(|| sig.verify(rk, &doc[..]).is_ok()).unwrap_or(false);
            let dv = rk.last();
            let imp = match &dv { Some(d) => format!("{} {}", hx(d), ok as u8), None => "ERR".into() };
            let pka: u8 = rk.algorithm().into();
            self.out.case("preimage3", &[u8::from(typ).to_string(), created.to_string(), pka.to_string(), hash_id(hash).to_string(), format!("doc:{tm}:{}", hx(&doc))], &[], &imp, Some(ok), "v3-verify");
        }
    }
}

fn main() {
    quiet_panics();
    let cli = cli();
    let mut cx = Ctx { out: Out::new(), rng: Rng::new(cli.seed) };
    if cli.mode == "replay" { cx.out.finish(); return; }
    let thorough = cli.tier == "thorough";
    let k4 = gen_key_with_subkey(KeyVersion::V4, 41);
    let k6 = gen_key_with_subkey(KeyVersion::V6, 61);
    let krsa = gen_key(KeyVersion::V4, KeyType::Rsa(2048), 42);
    let reps = if thorough { 12 } else { 3 };
    let hashes = [HashAlgorithm::Sha256, HashAlgorithm::Sha512, HashAlgorithm::Sha384, HashAlgorithm::Sha224, HashAlgorithm::Sha3_256, HashAlgorithm::Sha3_512];
    for rep in 0..reps {
        for (i, &hash) in hashes.iter().enumerate() {
            let variant = (rep * 7 + i) as u64;
            for key in [&k4, &k6] {
                let pubkey = key.primary_key.public_key().clone();
                let subkey = key.secret_subkeys[0].key.public_key().clone();
                let rk = RecKey::new(pubkey.clone());
                // the subkey as a signer (back signature): give the recording key the subkey's identity
                let rk_sub = RecKey::new_sub(subkey.clone());
                cx.documents(&rk, hash, variant);
                cx.certifications(&rk, &pubkey, hash, variant);
                cx.bindings(&rk, &rk_sub, &pubkey, &subkey, hash, variant);
                cx.direct(&rk, &pubkey, hash, variant);
            }
            // an RSA key: body longer than 255 octets
            let pubkey = krsa.primary_key.public_key().clone();
            let rk = RecKey::new(pubkey.clone());
            cx.certifications(&rk, &pubkey, hash, variant + 3);
            cx.direct(&rk, &pubkey, hash, variant + 3);
            cx.documents(&rk, hash, variant + 3);
        }
    }
    // hashed areas at the edges of the v4 two-octet length and of the trailer's count (4 + 2 + area)
    for size in [250u64, 65529, 65530, 65531, 65535, 65536, 70000] {
        for key in [&k4, &k6] {
            if size > 65535 && key.version() == KeyVersion::V4 { continue; }
            let pubkey = key.primary_key.public_key().clone();
            let rk = RecKey::new(pubkey.clone());
            cx.documents(&rk, HashAlgorithm::Sha256, 1_000_000 + size);
            cx.direct(&rk, &pubkey, HashAlgorithm::Sha512, 1_000_000 + size);
        }
    }
    let rk = RecKey::new(k4.primary_key.public_key().clone());
    for h in [HashAlgorithm::Sha256, HashAlgorithm::Sha1, HashAlgorithm::Sha512] { cx.v3(&rk, h); }
    {
        let pubkey = k4.primary_key.public_key().clone();
        let subkey = k4.secret_subkeys[0].key.public_key().clone();
        let rk_sub = RecKey::new_sub(subkey.clone());
        for h in [HashAlgorithm::Sha256, HashAlgorithm::Sha1, HashAlgorithm::Sha512] { cx.v3_key_sigs(&rk, &rk_sub, &pubkey, &subkey, h); }
        let pubkey = krsa.primary_key.public_key().clone();
        let rkr = RecKey::new(pubkey.clone());
        cx.v3_key_sigs(&rkr, &rk_sub, &pubkey, &subkey, HashAlgorithm::Sha256);
    }
    cx.out.finish();
    let _ = SignatureBytes::Native(vec![].into());
}
