//! C01: message round trip -- what the builder emits, the reader returns unchanged.
use std::io::Read;

use pgp::composed::{decrypt_session_key_with_password, ArmorOptions, EncryptionCaps, KeyType, Message, MessageBuilder, PlainSessionKey, SecretKeyParamsBuilder, SignedPublicKey, SignedSecretKey, SubkeyParamsBuilder};
use pgp::crypto::aead::{AeadAlgorithm, ChunkSize};
use pgp::crypto::ecc_curve::ECCCurve;
use pgp::crypto::hash::HashAlgorithm;
use pgp::crypto::sym::SymmetricKeyAlgorithm;
use pgp::packet::{DataMode, Packet, PacketParser};
use pgp::types::{CompressionAlgorithm, KeyDetails, KeyVersion, Password, SigningKey, StringToKey};
use vh::*;

struct Ctx { out: Out, rng: Rng }

fn key_with_sub(ver: KeyVersion, primary: KeyType, sub: KeyType, seed: u64) -> SignedSecretKey {
    let mut s = SubkeyParamsBuilder::default();
    s.version(ver).key_type(sub).can_encrypt(EncryptionCaps::All);
    let mut p = SecretKeyParamsBuilder::default();
    p.version(ver).key_type(primary).can_certify(true).can_sign(true).primary_user_id(format!("c01-{seed} <c01@example.org>")).subkeys(vec![s.build().expect("sub")]);
    p.build().expect("params").generate(Rng::new(seed)).expect("keygen")
}

#[derive(Clone, Debug)]
struct Cfg {
    reader_source: bool, mode: u8, name: String, pchunk: Option<u32>, comp: Option<CompressionAlgorithm>,
    signers: Vec<usize>, text: bool, enc: u8, sym: SymmetricKeyAlgorithm, aead: AeadAlgorithm, cs: u8,
    npw: usize, keys: Vec<usize>, anon: bool, armor: bool, armor_ck: bool,
}

fn cfg_string(c: &Cfg) -> String {
    format!("src={} mode={} name={} pchunk={:?} comp={:?} signers={:?} text={} enc={} sym={:?} aead={:?} cs={} npw={} keys={:?} anon={} armor={} ck={}",
        if c.reader_source { "reader" } else { "bytes" }, c.mode as char, c.name, c.pchunk, c.comp, c.signers, c.text, c.enc, c.sym, c.aead, c.cs, c.npw, c.keys, c.anon, c.armor, c.armor_ck)
}

fn main() {
    quiet_panics();
    let cli = cli();
    let mut cx = Ctx { out: Out::new(), rng: Rng::new(cli.seed) };
    if cli.mode == "replay" { cx.out.finish(); return; }
    let thorough = cli.tier == "thorough";
    let pool: Vec<SignedSecretKey> = vec![
        key_with_sub(KeyVersion::V4, KeyType::Ed25519Legacy, KeyType::ECDH(ECCCurve::Curve25519Legacy), 1101),
        key_with_sub(KeyVersion::V6, KeyType::Ed25519, KeyType::X25519, 1102),
        key_with_sub(KeyVersion::V4, KeyType::ECDSA(ECCCurve::P256), KeyType::ECDH(ECCCurve::P256), 1103),
        key_with_sub(KeyVersion::V4, KeyType::Rsa(2048), KeyType::Rsa(2048), 1104),
        key_with_sub(KeyVersion::V6, KeyType::Ed448, KeyType::X448, 1105),
    ];
    let pubs: Vec<SignedPublicKey> = pool.iter().map(|k| SignedPublicKey::from(k.clone())).collect();
    let syms = [SymmetricKeyAlgorithm::AES128, SymmetricKeyAlgorithm::AES192, SymmetricKeyAlgorithm::AES256, SymmetricKeyAlgorithm::TripleDES, SymmetricKeyAlgorithm::CAST5, SymmetricKeyAlgorithm::Blowfish, SymmetricKeyAlgorithm::Twofish, SymmetricKeyAlgorithm::Camellia128, SymmetricKeyAlgorithm::Camellia192, SymmetricKeyAlgorithm::Camellia256, SymmetricKeyAlgorithm::IDEA];
    let aes = [SymmetricKeyAlgorithm::AES128, SymmetricKeyAlgorithm::AES192, SymmetricKeyAlgorithm::AES256];
    let ncfg = if thorough { 900 } else { 260 };
    for ci in 0..ncfg {
        let r = &mut cx.rng;
        let enc = r.below(3) as u8;
        let cfg = Cfg {
            reader_source: r.chance(1, 2), mode: *r.pick(&[b'b', b'u', b'b']), name: (*r.pick(&["", "f.txt", "a-rather-long-file-name-for-a-literal-packet.bin"])).to_string(),
            pchunk: if r.chance(1, 2) { Some(1u32 << r.range(9, if thorough { 20 } else { 14 })) } else { None },
            comp: *r.pick(&[None, None, Some(CompressionAlgorithm::ZIP), Some(CompressionAlgorithm::ZLIB), Some(CompressionAlgorithm::BZip2), Some(CompressionAlgorithm::Uncompressed)]),
            signers: { let n = *r.pick(&[0usize, 0, 1, 1, 2, 3]); (0..n).map(|_| r.below(pool.len() as u64) as usize).collect() },
            text: r.chance(1, 3), enc, sym: if enc == 2 { *r.pick(&aes) } else { *r.pick(&syms) },
            aead: *r.pick(&[AeadAlgorithm::Eax, AeadAlgorithm::Ocb, AeadAlgorithm::Gcm]), cs: *r.pick(&[0u8, 0, 1, 2, 4, 6, 7, 8]),
            npw: 1 + r.below(2) as usize, keys: { let n = r.below(3) as usize; (0..n).map(|_| r.below(pool.len() as u64) as usize).collect() }, anon: r.chance(1, 4),
            armor: r.chance(1, 3), armor_ck: r.chance(1, 2),
        };
        // the first configurations are directed: 64-octet AEAD chunks pull the plaintext stream in small pieces, so that the one-pass
        // packets of every signer set put the literal header at a different offset of a chunk (a header served in two reads)
        let mut cfg = cfg;
        let directed = ci < 10;
        if directed {
            let sets: [&[usize]; 10] = [&[], &[0], &[1], &[4], &[0, 2], &[0, 1], &[1, 4], &[0, 2, 3], &[0, 0, 2, 2], &[1, 1]];
            cfg.enc = 2; cfg.cs = 0; cfg.comp = None; cfg.reader_source = ci % 2 == 1; cfg.pchunk = None; cfg.armor = false; cfg.text = false;
            cfg.signers = sets[ci].to_vec(); cfg.sym = SymmetricKeyAlgorithm::AES128; cfg.aead = AeadAlgorithm::Ocb;
        }
        // three more directed configurations: a compressed packet in 512-octet partial chunks over incompressible payloads of
        // EVERY length in a range more than one chunk wide, so that the compressed stream fills its last chunk exactly (a
        // zero-length final part) for some of them, whatever the compressor's overhead is
        let fill = (10..13).contains(&ci);
        if fill {
            cfg.enc = if ci == 12 { 1 } else { 0 }; cfg.comp = Some([CompressionAlgorithm::BZip2, CompressionAlgorithm::ZLIB, CompressionAlgorithm::BZip2][ci - 10]); cfg.reader_source = ci % 2 == 1;
            cfg.pchunk = Some(512); cfg.armor = false; cfg.text = false; cfg.mode = b'b'; cfg.signers = vec![]; cfg.npw = 1; cfg.keys = vec![]; cfg.name = String::new();
        }
        // sizes on and next to every boundary this configuration has
        // the builder leaves the file name field of the literal packet empty whatever name it was given (see the known finding)
        let hl = 6usize;
        let p = cfg.pchunk.unwrap_or(1 << 20) as i64;   // the builder's default partial chunk size is above what is swept here
        let c = 1i64 << (cfg.cs + 6);
        let mut sizes: Vec<i64> = vec![0, 1, 2, 511, 512, 513, 8191, 8192, 8193];
        if cfg.pchunk.is_some() { for d in [-2i64, -1, 0, 1] { sizes.push(p - hl as i64 + d); sizes.push(p + d); sizes.push(2 * p + d); sizes.push(2 * p - hl as i64 + d); } }
        if cfg.enc == 2 { for k in 1..=3i64 { for d in [-1i64, 0, 1] { sizes.push(k * c + d); } } }
        // the plaintext stream (packet headers, one-pass signatures, literal header in front of the payload) ending exactly
        // on the 8 KiB buffer of the stream encryptors: every offset that the headers of some configuration can take up
        for d in 0..=40i64 { if (d + ci as i64) % 2 == 0 && (thorough || ci % 3 == 0) { sizes.push(8192 - d); sizes.push(16384 - d); } }
        for _ in 0..2 { sizes.push(r.below(3000) as i64); }
        if directed { sizes = vec![0, 1, 100, 185, 186, 187, 200, 8377, 8378, 8379, 9000]; }
        if fill { sizes = (300..=(if ci == 11 { 460 } else { 830 })).collect(); }
        sizes.retain(|s| *s >= 0 && *s <= if thorough { 2_200_000 } else { 70_000 });
        sizes.sort(); sizes.dedup();
        // keep the run bounded: all sizes in thorough, a rotating third in quick
        let sizes: Vec<i64> = if thorough || directed || fill { sizes } else { sizes.iter().enumerate().filter(|(i, _)| (i + ci) % 3 == 0).map(|(_, s)| *s).collect() };
        for n in sizes {
            let n = n as usize;
            let payload: Vec<u8> = if cfg.text || cfg.mode == b'u' { let mut v = Vec::with_capacity(n); while v.len() < n { v.extend_from_slice(*cx.rng.pick(&[&b"line of text\r\n"[..], b"x\n", b"\r", b"caf\xc3\xa9 ", b"0123456789"])); } v.truncate(n); while std::str::from_utf8(&v).is_err() && !v.is_empty() { v.pop(); } v } else { cx.rng.bytes(n) };
            let n = payload.len();
            let pws: Vec<Password> = (0..cfg.npw).map(|i| Password::from(format!("pw{i}").as_str())).collect();
            let seed = cx.rng.next();
            // ---- build
            macro_rules! common { ($b:expr) => {{
                let b = &mut $b;
                if cfg.mode == b'u' { b.data_mode(DataMode::Utf8).map_err(|e| e.to_string())?; }
                if let Some(pc) = cfg.pchunk { b.partial_chunk_size(pc).map_err(|e| e.to_string())?; }
                if let Some(cp) = cfg.comp { b.compression(cp); }
                if cfg.text { b.sign_text(); }
                // (directed configurations rotate the hash: the one-pass packet of a v6 signer is 56 / 64 / 72 octets long with it)
                for (si, s) in cfg.signers.iter().enumerate() { let h = if directed && pool[*s].version() == KeyVersion::V6 && !matches!(pool[*s].primary_key.algorithm(), pgp::crypto::public_key::PublicKeyAlgorithm::Ed448) { [HashAlgorithm::Sha256, HashAlgorithm::Sha384, HashAlgorithm::Sha512][(n + si) % 3] } else { pool[*s].primary_key.hash_alg() }; b.sign(&pool[*s].primary_key, Password::empty(), h); }
            }}; }
            macro_rules! finish { ($b:expr) => {{
                if cfg.armor { $b.to_armored_string(Rng::new(seed ^ 9), ArmorOptions { headers: None, include_checksum: cfg.armor_ck }).map(|s| s.into_bytes()).map_err(|e| e.to_string()) } else { $b.to_vec(Rng::new(seed ^ 9)).map_err(|e| e.to_string()) }
            }}; }
            let built: Result<Result<Vec<u8>, String>, String> = guarded(|| -> Result<Vec<u8>, String> {
                // a source of unknown length (from_reader: streamed, partial lengths) or of known length (from_bytes: fixed length)
                macro_rules! build_with { ($base:expr) => {{ let base = $base; match cfg.enc {
                    0 => { let mut b = base; common!(b); finish!(b) }
                    1 => {
                        let mut b = base.seipd_v1(Rng::new(seed ^ 1), cfg.sym); common!(b);
                        for (i, pw) in pws.iter().enumerate() { b.encrypt_with_password(StringToKey::new_iterated(Rng::new(seed ^ (20 + i as u64)), HashAlgorithm::Sha256, 10), pw).map_err(|e| e.to_string())?; }
                        for k in &cfg.keys { if pool[*k].version() == KeyVersion::V6 { continue; } if cfg.anon { b.encrypt_to_key_anonymous(Rng::new(seed ^ 30), &pubs[*k].public_subkeys[0].key).map_err(|e| e.to_string())?; } else { b.encrypt_to_key(Rng::new(seed ^ 30), &pubs[*k].public_subkeys[0].key).map_err(|e| e.to_string())?; } }
                        finish!(b)
                    }
                    _ => {
                        let cs = ChunkSize::try_from(cfg.cs).map_err(|_| "chunk".to_string())?;
                        let mut b = base.seipd_v2(Rng::new(seed ^ 1), cfg.sym, cfg.aead, cs); common!(b);
                        for (i, pw) in pws.iter().enumerate() { b.encrypt_with_password(Rng::new(seed ^ (40 + i as u64)), StringToKey::new_iterated(Rng::new(seed ^ (20 + i as u64)), HashAlgorithm::Sha256, 10), pw).map_err(|e| e.to_string())?; }
                        for k in &cfg.keys { if cfg.anon { b.encrypt_to_key_anonymous(Rng::new(seed ^ 30), &pubs[*k].public_subkeys[0].key).map_err(|e| e.to_string())?; } else { b.encrypt_to_key(Rng::new(seed ^ 30), &pubs[*k].public_subkeys[0].key).map_err(|e| e.to_string())?; } }
                        finish!(b)
                    }
                } }}; }
                if cfg.reader_source { build_with!(MessageBuilder::from_reader(cfg.name.clone(), SchedReader::new(payload.clone(), Rng::new(seed).composition(payload.len())))) }
                else { build_with!(MessageBuilder::from_bytes(cfg.name.clone(), payload.clone())) }
            });
            let cfgs = cfg_string(&cfg);
            let rp0 = vec!["roundtrip".to_string(), cfgs.clone(), n.to_string(), seed.to_string()];
            let msg = match built {
                Ok(Ok(m)) => m,
                Ok(Err(e)) => { cx.out.case("", &[], &rp0, &format!("build refused: {}", &e[..e.len().min(80)]), Some(true), "build-refused"); continue; }
                Err(p) => { cx.out.case("", &[], &rp0, &p, Some(false), "build-panic"); continue; }
            };
            // ---- read with the library: every recipient secret alone gets the payload (C18 covers combinations)
            let read_with = |which: usize| -> Result<(Vec<u8>, String, bool), String> {
                guarded(|| -> Result<(Vec<u8>, String, bool), String> {
                    let m0 = if cfg.armor { Message::from_armor(&msg[..]).map(|x| x.0).map_err(|e| e.to_string())? } else { Message::from_bytes(&msg[..]).map_err(|e| e.to_string())? };
                    let m1 = if cfg.enc == 0 { m0 } else if which == usize::MAX {
                        // every recipient secret in one ring, all of them checked against each other
                        let e = Password::empty();
                        let ring = pgp::composed::TheRing { secret_keys: cfg.keys.iter().filter(|k| !(cfg.enc == 1 && pool[**k].version() == KeyVersion::V6)).map(|k| &pool[*k]).collect(), key_passwords: vec![&e], message_password: pws.iter().collect(), session_keys: vec![], decrypt_options: pgp::composed::DecryptionOptions::new() };
                        m0.decrypt_the_ring(ring, false).map(|x| x.0).map_err(|e| format!("DECRYPT-REFUSED {e}"))?
                    } else if which < pws.len() { m0.decrypt_with_password(&pws[which]).map_err(|e| format!("DECRYPT-REFUSED {e}"))? } else { let k = cfg.keys[which - pws.len()]; m0.decrypt(&Password::empty(), &pool[k]).map_err(|e| format!("DECRYPT-REFUSED {e}"))? };
                    let mut m2 = if m1.is_compressed() { m1.decompress().map_err(|e| e.to_string())? } else { m1 };
                    let mut out = Vec::new();
                    // uneven reads: the reader must not care
                    let mut buf = vec![0u8; 1 + (seed % 5000) as usize];
                    loop { let k = m2.read(&mut buf).map_err(|e| e.to_string())?; if k == 0 { break; } out.extend_from_slice(&buf[..k]); }
                    let name = m2.literal_data_header().map(|h| String::from_utf8_lossy(h.file_name()).to_string()).unwrap_or_default();
                    // the other literal metadata: the date the builder wrote (0) and the data mode it was asked for
                    let meta = m2.literal_data_header().map(|h| (h.created().as_secs(), format!("{:?}", h.mode())));
                    let want_mode = if cfg.mode == b'u' { "Utf8" } else { "Binary" };
                    if let Some((date, mode)) = &meta { if *date != 0 || (!cfg.text && mode != want_mode) { return Err(format!("LITERAL-METADATA date={date} mode={mode} (written: date=0 mode={want_mode})")); } }
                    let mut all = true;
                    for s in &cfg.signers { all &= m2.verify(&pubs[*s]).is_ok() || m2.verify_nested(&[&pubs[*s]]).map(|v| v.iter().any(|r| matches!(r, pgp::composed::VerificationResult::Valid(_)))).unwrap_or(false); }
                    Ok((out, name, all))
                }).and_then(|r| r)
            };
            let nsecrets = if cfg.enc == 0 { 1 } else { pws.len() + cfg.keys.iter().filter(|k| !(cfg.enc == 1 && pool[**k].version() == KeyVersion::V6)).count() };
            let mut verdicts: Vec<String> = Vec::new(); let mut all_ok = true; let mut only_name = true;
            for w in 0..nsecrets {
                // map w to the actual key index list without v6 keys for v1
                let wi = if w < pws.len() || cfg.enc == 0 { w } else { let ks: Vec<usize> = (0..cfg.keys.len()).filter(|i| !(cfg.enc == 1 && pool[cfg.keys[*i]].version() == KeyVersion::V6)).collect(); pws.len() + ks[w - pws.len()] };
                match read_with(wi) {
                    Ok((o, name, sigs)) => { let ok = o == payload && name == cfg.name && sigs; all_ok &= ok; if !ok { verdicts.push(format!("secret {wi}: payload-equal={} name-equal={} signatures-verify={}", o == payload, name == cfg.name, sigs)); } if !(o == payload && sigs) { only_name = false; } }
                    Err(e) => { all_ok = false; only_name = false; verdicts.push(format!("secret {wi}: {}", &e[..e.len().min(100)])); }
                }
            }
            if cfg.enc != 0 && nsecrets >= 2 {
                match read_with(usize::MAX) {
                    Ok((o, name, sigs)) => { let ok = o == payload && name == cfg.name && sigs; all_ok &= ok; if !ok { verdicts.push(format!("all secrets together: payload-equal={} name-equal={} signatures-verify={}", o == payload, name == cfg.name, sigs)); } if !(o == payload && sigs) { only_name = false; } }
                    Err(e) => { all_ok = false; only_name = false; verdicts.push(format!("all secrets together: {}", &e[..e.len().min(100)])); }
                }
            }
            // SKESK v4 has no integrity: does one of the passwords open ANOTHER recipient's packet to a plausible, different
            // session key?  (established here from the packets, never from the wording of an error)
            let ambiguous = cfg.enc == 1 && pws.len() >= 2 && !all_ok && {
                let bin: Vec<u8> = if cfg.armor { let mut o = Vec::new(); let _ = pgp::armor::Dearmor::new(&msg[..]).read_to_end(&mut o); o } else { msg.clone() };
                let sks: Vec<_> = PacketParser::new(&bin[..]).flatten().take_while(|p| matches!(p, Packet::SymKeyEncryptedSessionKey(_) | Packet::PublicKeyEncryptedSessionKey(_))).filter_map(|p| if let Packet::SymKeyEncryptedSessionKey(s) = p { Some(s) } else { None }).collect();
                pws.iter().any(|pw| { let opened: Vec<PlainSessionKey> = sks.iter().filter_map(|sk| guarded(|| decrypt_session_key_with_password(sk, pw).ok()).ok().flatten()).collect(); opened.len() >= 2 && opened.iter().any(|k| *k != opened[0]) })
            };
            let cls = format!("enc{}-{}-{}{}", cfg.enc, if cfg.comp.is_some() { "comp" } else { "plain" }, if cfg.signers.is_empty() { "unsigned" } else { "signed" }, if cfg.armor { "-armor" } else { "" });
            let mut rp = rp0.clone(); if msg.len() <= 60_000 { rp.push(hx(&msg)); }
            cx.out.case("", &[], &rp, &if all_ok { "round trip ok".to_string() } else if only_name { format!("FILE-NAME-DROPPED (given {:?}); payload and signatures ok", cfg.name) } else { format!("{}{}", if ambiguous { "SKESK4-PASSWORD-OPENS-OTHER-PACKET: " } else { "" }, verdicts.join(" | ")) }, Some(all_ok), &format!("library-{cls}"));
            // ---- the model's reader over the same octets (bounded size)
            if msg.len() <= 40_000 {
                let bin: Vec<u8> = if cfg.armor { let mut o = Vec::new(); if pgp::armor::Dearmor::new(&msg[..]).read_to_end(&mut o).is_err() { continue; } o } else { msg.clone() };
                let mut parts = vec![format!("arm={}", cfg.armor as u8), format!("ops={}", cfg.signers.len()), format!("sigs={}", cfg.signers.len()), format!("hl={hl}"), format!("enc={}", cfg.enc)];
                if let Some(cp) = cfg.comp { parts.push(format!("comp={}", u8::from(cp))); }
                if cfg.enc != 0 {
                    let esks: Vec<Packet> = PacketParser::new(&bin[..]).flatten().take_while(|p| matches!(p, Packet::SymKeyEncryptedSessionKey(_) | Packet::PublicKeyEncryptedSessionKey(_))).collect();
                    parts.push(format!("esks={}", esks.len()));
                    let Some(Packet::SymKeyEncryptedSessionKey(sk)) = esks.iter().find(|p| matches!(p, Packet::SymKeyEncryptedSessionKey(_))).cloned() else { continue; };
                    let key = pws.iter().find_map(|pw| decrypt_session_key_with_password(&sk, pw).ok());
                    let Some(key) = key else { continue; };
                    let raw: Vec<u8> = match &key { PlainSessionKey::V3_4 { key, .. } => key.as_ref().to_vec(), PlainSessionKey::V6 { key } => key.as_ref().to_vec(), PlainSessionKey::V5 { key } => key.as_ref().to_vec() };
                    parts.push(format!("key={}", hx(&raw))); parts.push(format!("sym={}", u8::from(cfg.sym)));
                    if cfg.enc == 2 {
                        parts.push(format!("aead={}", u8::from(cfg.aead))); parts.push(format!("cs={}", cfg.cs));
                        // the container header: find packet 18 after the ESKs
                        let mut o = 0usize; let mut hdr = None;
                        while o + 2 < bin.len() { let tag = bin[o] & 0x3f; let l1 = bin[o + 1]; let (hlh, bl, partial) = match l1 { 0..=191 => (2, l1 as usize, false), 192..=223 => (3, ((l1 as usize - 192) << 8) + bin[o + 2] as usize + 192, false), 255 => (6, u32::from_be_bytes([bin[o + 2], bin[o + 3], bin[o + 4], bin[o + 5]]) as usize, false), _ => (2, 1usize << (l1 & 0x1f), true) };
                            if tag == 18 { if bin.len() >= o + hlh + 36 && (bl >= 36 || !partial) { hdr = Some(bin[o + hlh..o + hlh + 36].to_vec()); } break; }
                            o += hlh + bl; }
                        let Some(h) = hdr else { continue; };
                        parts.push(format!("hdr={}", hx(&h)));
                    }
                }
                cx.out.case("read", &[parts.join(";"), hx(&msg)], &rp0, &format!("OK {}", hx(&payload)), None, &format!("model-{cls}"));
                // the writing side as a machine: one-pass packets, streamed literal packet, signatures -- the model's staged
                // producer (Msg/SignGen.v over Frame/PartialWriter.v) must emit exactly these octets
                // (a source of unknown length: from_bytes knows the length and writes one fixed-length literal packet)
                if cfg.enc == 0 && cfg.comp.is_none() && !cfg.armor && cfg.reader_source {
                    if let Some(pc) = cfg.pchunk { if msg.len() <= 40_000 {
                        cx.out.case("signgen", &[pc.trailing_zeros().to_string(), hx(&payload), cfg.signers.len().to_string(), hx(&msg)], &rp0, &hx(&msg), None, "model-signgen");
                    } }
                }
            }
        }
    }
    cx.out.finish();
}
