//! C16: cleartext signature framework.
use pgp::composed::{ArmorOptions, CleartextSignedMessage, KeyType};
use pgp::crypto::hash::HashAlgorithm;
use pgp::packet::{SignatureConfig, SignatureType, Subpacket, SubpacketData};
use pgp::types::{KeyDetails, KeyVersion, Password, Timestamp};
use vh::keys::{gen_key, RecKey};
use vh::*;

struct Ctx { out: Out, rng: Rng, rk: RecKey, real: pgp::composed::SignedSecretKey }

fn canon(d: &[u8]) -> Vec<u8> {
    let mut out = Vec::new();
    let mut prev_cr = false;
    for &b in d { if b == 10 && !prev_cr { out.push(13); } out.push(b); prev_cr = b == 13; }
    out
}

/// the RFC 9580 7.2 signed form, stated independently: trailing spaces and tabs
/// of every line removed, then every line ending made CR LF
fn rfc_signed_form(t: &[u8]) -> Vec<u8> {
    let mut out = Vec::new();
    for line in t.split_inclusive(|&b| b == b'\n') {
        let (content, end): (&[u8], &[u8]) = if line.ends_with(b"\r\n") { (&line[..line.len() - 2], b"\r\n") }
            else if line.ends_with(b"\n") { (&line[..line.len() - 1], b"\n") } else { (line, b"") };
        let mut e = content.len();
        while e > 0 && (content[e - 1] == b' ' || content[e - 1] == b'\t') { e -= 1; }
        out.extend_from_slice(&content[..e]);
        if !end.is_empty() { out.extend_from_slice(b"\r\n"); }
    }
    out
}

impl Ctx {
    fn config(&self, hash: HashAlgorithm) -> SignatureConfig {
        let mut c = SignatureConfig::v4(SignatureType::Text, self.rk.algorithm(), hash);
        c.hashed_subpackets = vec![
            Subpacket::regular(SubpacketData::SignatureCreationTime(Timestamp::from_secs(1_700_000_000))).unwrap(),
            Subpacket::regular(SubpacketData::IssuerFingerprint(self.rk.fingerprint())).unwrap(),
        ];
        c
    }

    /// sign -> text(), signed_text(), armored -> parse -> text(), verify
    fn cycle(&mut self, t: &[u8], real_key: bool, cls: &str) {
        let Ok(text) = String::from_utf8(t.to_vec()) else { return; };
        let hash = *self.rng.pick(&[HashAlgorithm::Sha256, HashAlgorithm::Sha512, HashAlgorithm::Sha384]);
        let r = guarded(|| -> Result<(String, String, String, bool), String> {
            let msg = if real_key {
                CleartextSignedMessage::sign(Rng::new(5), &text, &*self.real, &Password::empty()).map_err(|e| e.to_string())?
            } else {
                self.rk.clear();
                CleartextSignedMessage::new(&text, self.config(hash), &self.rk, &Password::empty()).map_err(|e| e.to_string())?
            };
            let d_sign = self.rk.last();
            let escaped = msg.text().as_bytes().to_vec();
            let signed = msg.signed_text().into_bytes();
            // direct verification of the freshly built message
            let v0 = if real_key { msg.verify(&self.real.primary_key.public_key()).is_ok() } else { msg.verify(&self.rk).is_ok() };
            let d_ver = self.rk.last();
            let arm = msg.to_armored_string(ArmorOptions::default()).map_err(|e| e.to_string())?;
            let back = CleartextSignedMessage::from_string(&arm);
            let (rb, v1, same) = match back {
                Ok((m2, _)) => {
                    let v = if real_key { m2.verify(&self.real.primary_key.public_key()).is_ok() } else { m2.verify(&self.rk).is_ok() };
                    (format!("OK {}", hx(m2.text().as_bytes())), v, m2.text() == msg.text())
                }
                Err(_) => ("ERR".to_string(), false, false),
            };
            let digests_agree = real_key || d_sign == d_ver;
            let ok = v0 && v1 && same && digests_agree;
            Ok((hx(&escaped), hx(&signed), format!("{rb} v0={} v1={}", v0 as u8, v1 as u8), ok))
        });
        let k = if real_key { "1" } else { "0" };
        match r {
            Ok(Ok((esc, signed, rb, ok))) => {
                self.out.case("escape", &[hx(t)], &["cycle".into(), hx(t), k.into()], &esc, None, cls);
                self.out.case("signed", &[hx(t)], &["cycle".into(), hx(t), k.into()], &signed, Some(unhx(&signed) == rfc_signed_form(t)), cls);
                self.out.case("readback", &[hx(t)], &["cycle".into(), hx(t), k.into()], &rb, Some(ok), cls);
            }
            Ok(Err(e)) => self.out.case("readback", &[hx(t)], &["cycle".into(), hx(t), k.into()], &format!("ERR {e}"), Some(false), cls),
            Err(p) => self.out.case("readback", &[hx(t)], &["cycle".into(), hx(t), k.into()], &p, Some(false), cls),
        }
    }

    /// the several-signers constructor: both signers are handed the signed form, and both signatures verify, fresh and read back
    fn cycle_many(&mut self, t: &[u8], cls: &str) {
        let Ok(text) = String::from_utf8(t.to_vec()) else { return; };
        let r = guarded(|| -> Result<(String, String, String, bool), String> {
            let mut handed: Option<String> = None;
            let msg = CleartextSignedMessage::new_many(&text, |st| {
                handed = Some(st.to_string());
                let a = self.config(HashAlgorithm::Sha256).sign(&self.rk, &Password::empty(), st.as_bytes())?;
                // (another digest than the first signer's: the document then announces two hash names)
                let mut c = SignatureConfig::v4(SignatureType::Text, self.real.primary_key.algorithm(), if t.len() % 2 == 0 { HashAlgorithm::Sha512 } else { HashAlgorithm::Sha384 });
                c.hashed_subpackets = vec![Subpacket::regular(SubpacketData::SignatureCreationTime(Timestamp::from_secs(1_700_000_000)))?, Subpacket::regular(SubpacketData::IssuerFingerprint(self.real.primary_key.fingerprint()))?];
                let b = c.sign(&self.real.primary_key, &Password::empty(), st.as_bytes())?;
                Ok(vec![a, b])
            }).map_err(|e| e.to_string())?;
            let signed = msg.signed_text().into_bytes();
            let handed_ok = handed.as_deref().map(|h| h.as_bytes() == &signed[..]).unwrap_or(false);
            let realpub = self.real.primary_key.public_key();
            let v0 = msg.verify(&self.rk).is_ok() && msg.verify(&realpub).is_ok();
            let arm = msg.to_armored_string(ArmorOptions::default()).map_err(|e| e.to_string())?;
            let (rb, v1, same) = match CleartextSignedMessage::from_string(&arm) {
                Ok((m2, _)) => (format!("OK {}", hx(m2.text().as_bytes())), m2.verify(&self.rk).is_ok() && m2.verify(&realpub).is_ok() && m2.signatures().len() == 2, m2.text() == msg.text()),
                Err(_) => ("ERR".to_string(), false, false),
            };
            Ok((hx(msg.text().as_bytes()), hx(&signed), format!("{rb} v0={} v1={} signers-handed-signed-form={}", v0 as u8, v1 as u8, handed_ok as u8), v0 && v1 && same && handed_ok))
        });
        match r {
            Ok(Ok((esc, signed, rb, ok))) => {
                self.out.case("escape", &[hx(t)], &["cycle-many".into(), hx(t)], &esc, None, cls);
                self.out.case("signed", &[hx(t)], &["cycle-many".into(), hx(t)], &signed, Some(unhx(&signed) == rfc_signed_form(t)), cls);
                self.out.case("", &[], &["cycle-many".into(), hx(t)], &rb, Some(ok), cls);
            }
            Ok(Err(e)) => self.out.case("", &[], &["cycle-many".into(), hx(t)], &format!("ERR {e}"), Some(false), cls),
            Err(p) => self.out.case("", &[], &["cycle-many".into(), hx(t)], &p, Some(false), cls),
        }
    }

    /// changes to the armored document: `keeps` says whether the signed form is
    /// unchanged (then verification must succeed) or changed (then it must fail)
    fn tamper(&mut self, t: &[u8], cls: &str) {
        let Ok(text) = String::from_utf8(t.to_vec()) else { return; };
        let msg = match CleartextSignedMessage::new(&text, self.config(HashAlgorithm::Sha256), &self.rk, &Password::empty()) { Ok(m) => m, Err(_) => return };
        let arm = msg.to_armored_string(ArmorOptions::default()).unwrap();
        let signed0 = msg.signed_text();
        let Some(body_start) = arm.find("\n\n").map(|p| p + 2) else { return; };
        let Some(sig_start) = arm.find("\n-----BEGIN PGP SIGNATURE") else { return; };
        if sig_start < body_start { return; }
        let body = &arm[body_start..sig_start];
        let mut variants: Vec<(String, String)> = Vec::new();
        // LF -> CRLF in the text section; trailing blanks added to every line
        // (the first two leave the RFC signed form alone and must keep the signature valid: every line ending LF -> CR LF;
        //  blanks added in front of every line ending)
        variants.push(("crlf".into(), String::from_utf8(canon(body.as_bytes())).unwrap()));
        variants.push(("trailing-blanks".into(), body.split('\n').map(|l| match l.strip_suffix('\r') { Some(c) => format!("{c} \t\r"), None => format!("{l} \t") }).collect::<Vec<_>>().join("\n")));
        variants.push(("crlf-every-lf".into(), body.replace('\n', "\r\n")));
        variants.push(("blanks-behind-cr".into(), body.split('\n').map(|l| format!("{l} \t")).collect::<Vec<_>>().join("\n")));
        // content changes
        if !body.is_empty() {
            let i = self.rng.below(body.len() as u64) as usize;
            if body.is_char_boundary(i) && body.is_char_boundary(i + 1) {
                let c = body.as_bytes()[i];
                let r = if c == b'x' { 'y' } else { 'x' };
                let mut v = body.to_string(); v.replace_range(i..i + 1, &r.to_string());
                variants.push(("flip".into(), v));
            }
            variants.push(("append".into(), format!("{body}x")));
            variants.push(("prepend-line".into(), format!("evil\n{body}")));
            if let Some(p) = body.rfind('\n') { variants.push(("drop-last-line".into(), body[..p].to_string())); }
        }
        // an unescaped armor header inside the text
        variants.push(("inject-boundary".into(), format!("{body}\n-----BEGIN PGP SIGNATURE-----\nxx")));
        for (name, nb) in variants {
            let doc = format!("{}{}{}", &arm[..body_start], nb, &arm[sig_start..]);
            let r = guarded(|| match CleartextSignedMessage::from_string(&doc) {
                Ok((m2, _)) => (true, m2.verify(&self.rk).is_ok(), m2.signed_text() == signed0),
                Err(_) => (false, false, false),
            });
            let (imp, pred) = match r {
                Ok((parsed, verified, same_signed)) => {
                    // soundness: verified => signed form unchanged; completeness: unchanged => verified
                    let must_verify = name == "crlf" || name == "trailing-blanks";
                    let ok = if must_verify { parsed && verified } else if parsed { verified == same_signed } else { true };
                    (format!("parsed={} verified={} same={}", parsed as u8, verified as u8, same_signed as u8), ok)
                }
                Err(p) => (p, false),
            };
            self.out.case("", &[], &["tamper".into(), hx(t), name.clone()], &imp, Some(pred), &format!("{cls}-{name}"));
        }
    }
}

fn strings_over(alpha: &[u8], len: usize) -> Vec<Vec<u8>> {
    let mut out = vec![vec![]];
    for _ in 0..len {
        let mut next = Vec::new();
        for s in &out { for &a in alpha { let mut t = s.clone(); t.push(a); next.push(t); } }
        out = next;
    }
    out
}

fn main() {
    quiet_panics();
    let cli = cli();
    let real = gen_key(KeyVersion::V4, KeyType::Ed25519Legacy, 16);
    let rk = RecKey::new(real.primary_key.public_key().clone());
    let mut cx = Ctx { out: Out::new(), rng: Rng::new(cli.seed), rk, real };
    if cli.mode == "replay" {
        let a = cli.rest.clone();
        match a[0].as_str() {
            "cycle" => cx.cycle(&unhx(&a[1]), a.get(2).map(|s| s == "1").unwrap_or(false), "replay"),
            "tamper" => cx.tamper(&unhx(&a[1]), "replay"),
            _ => {}
        }
        cx.out.finish();
        return;
    }
    let thorough = cli.tier == "thorough";
    let alpha = [b'-', b' ', b'\t', b'\r', b'\n', b'a'];
    let l = if thorough { 6 } else { 5 };
    for len in 0..=l {
        for s in strings_over(&alpha, len) {
            cx.cycle(&s, false, "exhaustive");
            if len <= 4 { cx.cycle_many(&s, "exhaustive-many-signers"); }
        }
    }
    // grammar of lines
    let pieces: [&str; 16] = ["", "-", "- ", "--", "-----BEGIN PGP SIGNATURE-----", "-----BEGIN PGP SIGNED MESSAGE-----",
        "-----END PGP SIGNATURE-----", "From here", "h\u{e9}llo w\u{f6}rld \u{1F600}", "trailing blanks \t ", "\t", " ", "x\r", "-----", "Hash: SHA256", "a-b"];
    let n = if thorough { 6000 } else { 800 };
    for i in 0..n {
        let nl = cx.rng.range(0, 8) as usize;
        let mut t = String::new();
        for j in 0..nl {
            let p: &str = *cx.rng.pick(&pieces[..]); t.push_str(p);
            if j + 1 < nl || cx.rng.chance(1, 2) { t.push_str(if cx.rng.chance(1, 4) { "\r\n" } else { "\n" }); }
        }
        cx.cycle(t.as_bytes(), i % 10 == 0, "grammar");
        if i % 4 == 1 { cx.cycle_many(t.as_bytes(), "grammar-many-signers"); }
        if i % 2 == 0 { cx.tamper(t.as_bytes(), "tamper"); }
    }
    // lines long enough for the signed form to end on and next to the 512-octet windows of the normalising reader that
    // verification reads the text through (one line, and eight lines)
    for n in (505usize..=516).chain(1017..=1030) {
        let mut t = "x".repeat(n); t.push('\n');
        cx.cycle(t.as_bytes(), n % 2 == 0, "window-edge");
        let mut t8 = String::new(); for j in 0..8 { t8.push_str(&"y".repeat(if j == 7 { n.saturating_sub(7 * 126 + 16).max(1) } else { 126 })); t8.push('\n'); }
        cx.cycle(t8.as_bytes(), false, "window-edge-lines");
    }
    for len in 0..=(if thorough { 5 } else { 4 }) { for s in strings_over(&alpha, len) { cx.tamper(&s, "tamper-small"); } }
    cx.out.finish();
}
