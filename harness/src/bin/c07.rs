//! C07: generated keys are valid, self-consistent and usable for every seed and shape.
use std::io::Read;

use pgp::composed::{ArmorOptions, Deserializable, DetachedSignature, EncryptionCaps, KeyType, Message, MessageBuilder, SecretKeyParamsBuilder, SignedPublicKey, SignedSecretKey, SubkeyParamsBuilder};
use pgp::crypto::aead::AeadAlgorithm;
use pgp::crypto::ecc_curve::ECCCurve;
use pgp::crypto::hash::HashAlgorithm;
use pgp::crypto::public_key::PublicKeyAlgorithm;
use pgp::crypto::sym::SymmetricKeyAlgorithm;
use pgp::packet::{Packet, PacketParser, Signature};
use pgp::ser::Serialize;
use pgp::types::{CompressionAlgorithm, KeyDetails, KeyVersion, Password, SignatureBytes, SigningKey};
use vh::*;

struct Ctx { out: Out }

#[derive(Clone)]
struct Shape { ver: KeyVersion, primary: KeyType, pname: &'static str, subs: Vec<(KeyType, bool, &'static str)>, uids: usize, pass: Option<&'static str> }

/// `uids` >= 100 means: no primary user id, `uids - 100` plain user ids (v6 only)
fn has_primary_uid(sh: &Shape) -> bool { sh.uids >= 1 && sh.uids < 100 }
fn plain_uids(sh: &Shape) -> usize { if sh.uids >= 100 { sh.uids - 100 } else { sh.uids.saturating_sub(1) } }
fn total_uids(sh: &Shape) -> usize { if sh.uids >= 100 { sh.uids - 100 } else { sh.uids } }

/// the passphrase of subkey `i`: its own when the name says so, else the shape's
fn sub_pass(sh: &Shape, i: usize) -> Option<&'static str> { if sh.subs[i].2.ends_with("-ownpw") { Some("subpass") } else { sh.pass } }

/// the encryption capability asked for subkey `i` of a shape (by the suffix of its name)
fn caps_of(sh: &Shape, i: usize) -> EncryptionCaps {
    let n = sh.subs[i].2;
    let n = n.trim_end_matches("-ownpw");
    if n.ends_with("-comm") { EncryptionCaps::Communication } else if n.ends_with("-stor") { EncryptionCaps::Storage } else { EncryptionCaps::All }
}

fn scalar_len(alg: PublicKeyAlgorithm, kt: &KeyType) -> Option<usize> {
    match (alg, kt) {
        (PublicKeyAlgorithm::EdDSALegacy, _) => Some(32),
        (PublicKeyAlgorithm::ECDSA, KeyType::ECDSA(c)) | (PublicKeyAlgorithm::ECDH, KeyType::ECDH(c)) => Some(match c { ECCCurve::P256 | ECCCurve::Secp256k1 | ECCCurve::Curve25519Legacy => 32, ECCCurve::P384 => 48, ECCCurve::P521 => 66, _ => return None }),
        _ => None,
    }
}

impl Ctx {
    /// every MPI of fixed nominal size: the wire form must be the model's encoding of the padded value
    fn mpi_case(&mut self, what: &str, wire_value: &[u8], n: usize, seed: u64, cls: &str) {
        if wire_value.len() > n { self.out.case("", &[], &["mpi".into(), what.into(), seed.to_string(), hx(wire_value)], &format!("value longer than its nominal size {n}"), Some(false), &format!("{cls}-oversize")); return; }
        let mut native = vec![0u8; n - wire_value.len()]; native.extend_from_slice(wire_value);
        // the library's MPI writer over the stripped value
        let w = pgp::types::Mpi::from_slice(wire_value).to_bytes().unwrap_or_default();
        let lz = n - wire_value.len();
        self.out.case("mpi", &[hx(&native)], &["mpi".into(), what.into(), seed.to_string(), hx(&native)], &hx(&w), Some(wire_value.first().map(|b| *b != 0).unwrap_or(true)), &format!("{cls}-{}", if lz > 0 { "leading-zero" } else { "full" }));
    }

    fn sig_mpis(&mut self, sig: &Signature, n: Option<usize>, seed: u64, what: &str) {
        let (Some(n), Some(SignatureBytes::Mpis(ms))) = (n, sig.signature()) else { return; };
        for (i, m) in ms.iter().enumerate() { self.mpi_case(&format!("{what}-sig-half{i}"), m.as_ref(), n, seed, "mpi-signature"); }
    }

    fn one(&mut self, sh: &Shape, seed: u64) {
        let name = format!("{}-{}{}", if sh.ver == KeyVersion::V6 { "v6" } else { "v4" }, sh.pname, sh.subs.iter().map(|s| format!("+{}", s.2)).collect::<String>());
        let cls = format!("{name}{}", if sh.pass.is_some() { "-locked" } else { "" });
        let rp = vec!["gen".to_string(), name.clone(), seed.to_string(), sh.uids.to_string(), sh.pass.unwrap_or("").to_string()];
        // every combination of stated / unstated preference lists over the seeds (seed 0 mod 16: all four stated)
        let mask = 15 - (seed % 16) as u8;
        let sym_all = [SymmetricKeyAlgorithm::AES256, SymmetricKeyAlgorithm::AES128];
        let hash_all = [HashAlgorithm::Sha512, HashAlgorithm::Sha256];
        let comp_all = [CompressionAlgorithm::ZLIB, CompressionAlgorithm::Uncompressed];
        let aead_all = [(SymmetricKeyAlgorithm::AES256, AeadAlgorithm::Ocb), (SymmetricKeyAlgorithm::AES128, AeadAlgorithm::Gcm)];
        let sym_pref = if mask & 1 != 0 { &sym_all[..] } else { &sym_all[..0] };
        let hash_pref = if mask & 2 != 0 { &hash_all[..] } else { &hash_all[..0] };
        let comp_pref = if mask & 4 != 0 { &comp_all[..] } else { &comp_all[..0] };
        let aead_pref = if mask & 8 != 0 { &aead_all[..] } else { &aead_all[..0] };
        let built = guarded(|| -> Result<SignedSecretKey, String> {
            let mut subs = Vec::new();
            for (kt, sign, _) in &sh.subs {
                let mut s = SubkeyParamsBuilder::default();
                s.version(sh.ver).key_type(kt.clone());
                if *sign { s.can_sign(true); } else { s.can_encrypt(caps_of(sh, subs.len())); }
                if let Some(p) = sub_pass(sh, subs.len()) { s.passphrase(Some(p.to_string())); }
                subs.push(s.build().map_err(|e| e.to_string())?);
            }
            let mut p = SecretKeyParamsBuilder::default();
            p.version(sh.ver).key_type(sh.primary.clone()).can_certify(true).can_sign(true)
                .preferred_symmetric_algorithms(sym_pref[..].into()).preferred_hash_algorithms(hash_pref[..].into())
                .preferred_compression_algorithms(comp_pref[..].into()).preferred_aead_algorithms(aead_pref[..].into()).subkeys(subs);
            if has_primary_uid(sh) { p.primary_user_id(format!("primary {seed} <p{seed}@example.org>")); }
            if plain_uids(sh) >= 1 { p.user_ids((1..=plain_uids(sh)).map(|i| format!("extra {i} <e{i}@example.org>")).collect()); }
            if let Some(pw) = sh.pass { p.passphrase(Some(pw.to_string())); }
            p.build().map_err(|e| e.to_string())?.generate(Rng::new(seed)).map_err(|e| e.to_string())
        });
        let key = match built {
            Ok(Ok(k)) => k,
            // generation may decline only what the format does not allow (here: a v4 key without a user id)
            Ok(Err(e)) => { let allowed = sh.ver == KeyVersion::V4 && !has_primary_uid(sh); self.out.case("", &[], &rp, &format!("refused: {}", &e[..e.len().min(100)]), Some(allowed), &format!("{cls}-refused")); return; }
            Err(p) => { self.out.case("", &[], &rp, &p, Some(false), &format!("{cls}-panic")); return; }
        };
        let pw = Password::from(sh.pass.unwrap_or(""));
        let mut facts: Vec<(&str, bool)> = Vec::new();
        let pubk = SignedPublicKey::from(key.clone());
        facts.push(("secret verify_bindings", guarded(|| key.verify_bindings().is_ok()).unwrap_or(false)));
        facts.push(("public verify_bindings", guarded(|| pubk.verify_bindings().is_ok()).unwrap_or(false)));
        let bin = key.to_bytes().unwrap_or_default();
        facts.push(("binary re-import equal", guarded(|| SignedSecretKey::from_bytes(&bin[..]).map(|k| k == key).unwrap_or(false)).unwrap_or(false)));
        facts.push(("announced length", key.write_len() == bin.len()));
        let arm = guarded(|| key.to_armored_string(ArmorOptions::default()).ok()).ok().flatten().unwrap_or_default();
        facts.push(("armored re-import equal", guarded(|| SignedSecretKey::from_string(&arm).map(|(k, _)| k == key).unwrap_or(false)).unwrap_or(false)));
        let pbin = pubk.to_bytes().unwrap_or_default();
        facts.push(("public binary re-import equal", guarded(|| SignedPublicKey::from_bytes(&pbin[..]).map(|k| k == pubk).unwrap_or(false)).unwrap_or(false)));
        let parm = guarded(|| pubk.to_armored_string(ArmorOptions::default()).ok()).ok().flatten().unwrap_or_default();
        facts.push(("public armored re-import equal", guarded(|| SignedPublicKey::from_string(&parm).map(|(k, _)| k == pubk).unwrap_or(false)).unwrap_or(false)));
        facts.push(("user id count", key.details.users.len() == total_uids(sh)));
        // the Primary User ID flag sits on the requested primary user id and on no other
        {
            let flagged: Vec<String> = key.details.users.iter().filter(|u| u.signatures.iter().any(|s| s.is_primary())).map(|u| String::from_utf8_lossy(u.id.id()).to_string()).collect();
            let want: Vec<String> = if has_primary_uid(sh) { vec![format!("primary {seed} <p{seed}@example.org>")] } else { vec![] };
            facts.push(("primary user id flag exactly where requested", flagged == want));
        }
        facts.push(("subkey count", key.secret_subkeys.len() == sh.subs.len()));
        // flags and preferences: on the primary user id certification (v4) / direct key signature (v6)
        let pref_sig: Option<&Signature> = if sh.ver == KeyVersion::V6 { key.details.direct_signatures.first() } else { key.details.users.first().and_then(|u| u.signatures.first()) };
        if let Some(s) = pref_sig {
            facts.push(("primary flags certify+sign", s.key_flags().certify() && s.key_flags().sign() && !s.key_flags().encrypt_comms()));
            {
                use pgp::ser::Serialize;
                let fb = s.key_flags().to_bytes().unwrap_or_default();
                self.out.case("flags", &["1".into(), "1".into(), "none".into(), "0".into()], &["flags".into(), sh.pname.into(), seed.to_string(), "primary".into()],
                    &fb.first().map(|b| b.to_string()).unwrap_or("none".into()), Some(fb.iter().skip(1).all(|b| *b == 0)), "primary-flags-octet");
            }
            facts.push(("symmetric preferences", s.preferred_symmetric_algs() == &sym_pref[..]));
            facts.push(("hash preferences", s.preferred_hash_algs() == &hash_pref[..]));
            facts.push(("compression preferences", s.preferred_compression_algs() == &comp_pref[..]));
            facts.push(("aead preferences", s.preferred_aead_algs() == &aead_pref[..]));
        } else if total_uids(sh) > 0 || sh.ver == KeyVersion::V6 { facts.push(("self-signature present", false)); }
        for (i, (sub, spec)) in key.secret_subkeys.iter().zip(sh.subs.iter()).enumerate() {
            let Some(b) = sub.signatures.first() else { facts.push(("subkey binding present", false)); continue; };
            let f = b.key_flags();
            // the flags octet against the model's function of the request
            {
                use pgp::ser::Serialize;
                let fb = f.to_bytes().unwrap_or_default();
                let enc = if spec.1 { "none" } else { match caps_of(sh, i) { EncryptionCaps::Communication => "comm", EncryptionCaps::Storage => "stor", _ => "all" } };
                let rest_zero = fb.iter().skip(1).all(|b| *b == 0);
                self.out.case("flags", &["0".into(), (spec.1 as u8).to_string(), enc.into(), "0".into()], &["flags".into(), sh.pname.into(), seed.to_string(), i.to_string()],
                    &fb.first().map(|b| b.to_string()).unwrap_or("none".into()), Some(rest_zero), "subkey-flags-octet");
            }
            if spec.1 { facts.push(("signing subkey flags", f.sign() && !f.encrypt_comms())); facts.push(("signing subkey has back signature", b.embedded_signature().is_some())); }
            else {
                let (wc, ws) = match caps_of(sh, i) { EncryptionCaps::Communication => (true, false), EncryptionCaps::Storage => (false, true), _ => (true, true) };
                facts.push(("encryption subkey flags as requested", f.encrypt_comms() == wc && f.encrypt_storage() == ws && !f.sign() && !f.certify()));
            }
        }
        // usable: sign / verify with the primary and with signing subkeys
        let data = format!("data {seed}");
        let s = guarded(|| DetachedSignature::sign_binary_data(Rng::new(seed ^ 1), &key.primary_key, &pw, key.primary_key.hash_alg(), data.as_bytes()).ok()).ok().flatten();
        facts.push(("primary signs", s.is_some()));
        if let Some(s) = &s {
            facts.push(("primary signature verifies", guarded(|| s.verify(&pubk, data.as_bytes()).is_ok()).unwrap_or(false)));
            facts.push(("other data rejected", guarded(|| s.verify(&pubk, b"other").is_err()).unwrap_or(false)));
            // RSA: several more signatures, so that values with leading zero octets are among them
            if matches!(sh.primary, KeyType::Rsa(_)) {
                let all = (0..8u64).all(|j| { let d = format!("data {seed} {j}"); guarded(|| DetachedSignature::sign_binary_data(Rng::new(seed ^ (100 + j)), &key.primary_key, &pw, key.primary_key.hash_alg(), d.as_bytes()).ok().map(|s| s.verify(&pubk, d.as_bytes()).is_ok())).ok().flatten().unwrap_or(false) });
                facts.push(("eight more primary signatures verify", all));
            }
            self.sig_mpis(&s.signature, scalar_len(key.primary_key.algorithm(), &sh.primary), seed, &name);
        }
        for (si, (sub, spec)) in key.secret_subkeys.iter().zip(sh.subs.iter()).enumerate() {
            let pw = match sub_pass(sh, si) { Some(p) => Password::from(p), None => Password::empty() };
            if spec.1 {
                let s = guarded(|| DetachedSignature::sign_binary_data(Rng::new(seed ^ 2), &sub.key, &pw, sub.key.hash_alg(), data.as_bytes()).ok()).ok().flatten();
                facts.push(("subkey signs", s.is_some()));
                if let Some(s) = &s { facts.push(("subkey signature verifies", guarded(|| s.verify(&sub.key.public_key(), data.as_bytes()).is_ok()).unwrap_or(false))); self.sig_mpis(&s.signature, scalar_len(sub.key.algorithm(), &spec.0), seed, &name); }
            } else {
                // ECDH: the KDF hash and key-wrap cipher announced in the key are those RFC 9580 11.5.1 prescribes for the curve
                if let pgp::types::PublicParams::ECDH(ep) = sub.key.public_key().public_params() {
                    use pgp::types::EcdhPublicParams as E; use pgp::crypto::hash::HashAlgorithm as H;
                    let got_want = match ep {
                        E::Curve25519Legacy { hash, alg_sym, .. } => Some(((*hash, *alg_sym), (H::Sha256, SymmetricKeyAlgorithm::AES128))),
                        E::P256 { hash, alg_sym, .. } => Some(((*hash, *alg_sym), (H::Sha256, SymmetricKeyAlgorithm::AES128))),
                        E::P384 { hash, alg_sym, .. } => Some(((*hash, *alg_sym), (H::Sha384, SymmetricKeyAlgorithm::AES192))),
                        E::P521 { hash, alg_sym, .. } => Some(((*hash, *alg_sym), (H::Sha512, SymmetricKeyAlgorithm::AES256))),
                        _ => None,
                    };
                    if let Some((got, want)) = got_want { facts.push(("ecdh kdf hash and kek cipher as RFC 9580 11.5.1 prescribes for the curve", got == want)); }
                }
                // encrypt to the subkey, decrypt with the key (v1 and, for v6, v2 containers)
                for v2 in [false, true] {
                    if v2 && sh.ver != KeyVersion::V6 { continue; }
                    let r = guarded(|| -> Option<bool> {
                        let bytes = if v2 { let mut b = MessageBuilder::from_bytes("", data.clone().into_bytes()).seipd_v2(Rng::new(3), SymmetricKeyAlgorithm::AES128, AeadAlgorithm::Ocb, pgp::crypto::aead::ChunkSize::C64B); b.encrypt_to_key(Rng::new(seed ^ 4), &sub.key.public_key()).ok()?; b.to_vec(Rng::new(5)).ok()? }
                                    else { let mut b = MessageBuilder::from_bytes("", data.clone().into_bytes()).seipd_v1(Rng::new(3), SymmetricKeyAlgorithm::AES128); b.encrypt_to_key(Rng::new(seed ^ 4), &sub.key.public_key()).ok()?; b.to_vec(Rng::new(5)).ok()? };
                        let m = Message::from_bytes(&bytes[..]).ok()?;
                        let mut d = m.decrypt(&pw, &key).ok()?;
                        let mut o = Vec::new(); d.read_to_end(&mut o).ok()?;
                        Some(o == data.as_bytes())
                    });
                    facts.push((if v2 { "encrypt/decrypt v2" } else { "encrypt/decrypt v1" }, matches!(r, Ok(Some(true)))));
                }
            }
        }
        // self-signatures and bindings: MPIs of fixed nominal size
        for p in PacketParser::new(&bin[..]).flatten() {
            if let Packet::Signature(sig) = p { self.sig_mpis(&sig, scalar_len(sig.config().map(|c| c.pub_alg).unwrap_or(PublicKeyAlgorithm::RSA), &sh.primary), seed, &name); }
        }
        // secret scalars on the wire (unlocked keys): the last MPI of the secret key packet
        if sh.pass.is_none() {
            let mut kts: Vec<(Vec<u8>, Vec<u8>, PublicKeyAlgorithm, KeyType)> = vec![(key.primary_key.to_bytes().unwrap_or_default(), key.primary_key.public_key().to_bytes().unwrap_or_default(), key.primary_key.algorithm(), sh.primary.clone())];
            for (sub, spec) in key.secret_subkeys.iter().zip(sh.subs.iter()) { kts.push((sub.key.to_bytes().unwrap_or_default(), sub.key.public_key().to_bytes().unwrap_or_default(), sub.key.algorithm(), spec.0.clone())); }
            for (body, pubb, alg, kt) in kts {
                let Some(n) = scalar_len(alg, &kt) else { continue; };
                if body.len() < pubb.len() + 3 || body[pubb.len()] != 0 { continue; }
                let m = &body[pubb.len() + 1..];
                let bits = u16::from_be_bytes([m[0], m[1]]) as usize; let l = bits.div_ceil(8);
                if m.len() < 2 + l { continue; }
                self.mpi_case(&format!("{name}-secret-scalar"), &m[2..2 + l], n, seed, "mpi-secret-scalar");
            }
        }
        let failed: Vec<&str> = facts.iter().filter(|(_, ok)| !ok).map(|(n, _)| *n).collect();
        self.out.case("", &[], &rp, &if failed.is_empty() { format!("all {} facts hold", facts.len()) } else { format!("FAILED: {}", failed.join("; ")) }, Some(failed.is_empty()), &cls);
    }
}

/// a generated key of a cheap shape, written and read back (nothing else)
fn many(cx: &mut Ctx, sh: &Shape, si: usize, name: &str, seed: u64) {
    let r = guarded(|| -> Result<(bool, bool, bool), String> {
        let mut subs = Vec::new();
        for (kt, sign, _) in &sh.subs { let mut b = SubkeyParamsBuilder::default(); b.version(sh.ver).key_type(kt.clone()); if *sign { b.can_sign(true); } else { b.can_encrypt(caps_of(sh, subs.len())); } subs.push(b.build().map_err(|e| e.to_string())?); }
        let mut p = SecretKeyParamsBuilder::default();
        p.version(sh.ver).key_type(sh.primary.clone()).can_certify(true).can_sign(true).subkeys(subs).primary_user_id(format!("many {seed} <m{seed}@example.org>"));
        let key = p.build().map_err(|e| e.to_string())?.generate(Rng::new(seed)).map_err(|e| e.to_string())?;
        let w = key.to_bytes().map_err(|e| e.to_string())?;
        let back = SignedSecretKey::from_bytes(&w[..]);
        let same = matches!(&back, Ok(k) if *k == key);
        let len_ok = key.write_len() == w.len();
        let pw = SignedPublicKey::from(key.clone()).to_bytes().map_err(|e| e.to_string())?;
        let pub_same = matches!(SignedPublicKey::from_bytes(&pw[..]), Ok(k) if k == SignedPublicKey::from(key.clone()));
        Ok((same, len_ok, pub_same))
    });
    let rp = vec!["gen-many".to_string(), si.to_string(), seed.to_string()];
    match r {
        Ok(Ok((same, len_ok, pub_same))) => cx.out.case("", &[], &rp, &format!("reads-back={same} length={len_ok} public-reads-back={pub_same}"), Some(same && len_ok && pub_same), &format!("{name}-written-and-read-back")),
        Ok(Err(e)) => cx.out.case("", &[], &rp, &format!("refused: {}", &e[..e.len().min(100)]), Some(false), &format!("{name}-many-refused")),
        Err(p) => cx.out.case("", &[], &rp, &p, Some(false), &format!("{name}-many-panic")),
    }
}

fn main() {
    quiet_panics();
    let cli = cli();
    let mut cx = Ctx { out: Out::new() };
    let shapes_all: Vec<Shape> = {
        let enc4 = (KeyType::ECDH(ECCCurve::Curve25519Legacy), false, "cv25519");
        let mut v = vec![
            Shape { ver: KeyVersion::V4, primary: KeyType::Ed25519Legacy, pname: "eddsa-legacy", subs: vec![enc4.clone()], uids: 1, pass: None },
            Shape { ver: KeyVersion::V4, primary: KeyType::Ed25519Legacy, pname: "eddsa-legacy", subs: vec![enc4.clone(), (KeyType::Ed25519Legacy, true, "sign-eddsa-legacy")], uids: 3, pass: Some("pass") },
            Shape { ver: KeyVersion::V4, primary: KeyType::ECDSA(ECCCurve::P256), pname: "p256", subs: vec![(KeyType::ECDH(ECCCurve::P256), false, "ecdh-p256"), (KeyType::ECDSA(ECCCurve::P256), true, "sign-p256")], uids: 2, pass: None },
            Shape { ver: KeyVersion::V4, primary: KeyType::ECDSA(ECCCurve::P384), pname: "p384", subs: vec![(KeyType::ECDH(ECCCurve::P384), false, "ecdh-p384")], uids: 1, pass: None },
            Shape { ver: KeyVersion::V4, primary: KeyType::ECDSA(ECCCurve::P521), pname: "p521", subs: vec![(KeyType::ECDH(ECCCurve::P521), false, "ecdh-p521")], uids: 1, pass: Some("pass") },
            Shape { ver: KeyVersion::V4, primary: KeyType::ECDSA(ECCCurve::Secp256k1), pname: "k256", subs: vec![enc4.clone()], uids: 1, pass: None },
            Shape { ver: KeyVersion::V4, primary: KeyType::Ed25519, pname: "ed25519", subs: vec![(KeyType::X25519, false, "x25519")], uids: 0, pass: None },
            Shape { ver: KeyVersion::V6, primary: KeyType::Ed25519, pname: "ed25519", subs: vec![(KeyType::X25519, false, "x25519"), (KeyType::Ed25519, true, "sign-ed25519")], uids: 1, pass: None },
            Shape { ver: KeyVersion::V6, primary: KeyType::Ed25519, pname: "ed25519", subs: vec![(KeyType::X25519, false, "x25519")], uids: 0, pass: Some("pass") },
            Shape { ver: KeyVersion::V6, primary: KeyType::Ed448, pname: "ed448", subs: vec![(KeyType::X448, false, "x448")], uids: 2, pass: None },
            Shape { ver: KeyVersion::V6, primary: KeyType::ECDSA(ECCCurve::P256), pname: "p256", subs: vec![(KeyType::ECDH(ECCCurve::P256), false, "ecdh-p256")], uids: 1, pass: None },
            Shape { ver: KeyVersion::V6, primary: KeyType::ECDSA(ECCCurve::P384), pname: "p384", subs: vec![(KeyType::ECDSA(ECCCurve::P384), true, "sign-p384")], uids: 1, pass: Some("pass") },
            Shape { ver: KeyVersion::V6, primary: KeyType::ECDSA(ECCCurve::P521), pname: "p521", subs: vec![(KeyType::ECDH(ECCCurve::P521), false, "ecdh-p521"), (KeyType::ECDH(ECCCurve::P384), false, "ecdh-p384")], uids: 1, pass: None },
        ];
        v.push(Shape { ver: KeyVersion::V4, primary: KeyType::Ed25519Legacy, pname: "eddsa-legacy", subs: vec![(KeyType::ECDH(ECCCurve::Curve25519Legacy), false, "cv25519-comm"), (KeyType::ECDH(ECCCurve::P256), false, "ecdh-p256-stor")], uids: 1, pass: None });
        v.push(Shape { ver: KeyVersion::V6, primary: KeyType::Ed25519, pname: "ed25519", subs: vec![(KeyType::X25519, false, "x25519-stor"), (KeyType::X448, false, "x448-comm")], uids: 1, pass: None });
        v.push(Shape { ver: KeyVersion::V4, primary: KeyType::Rsa(2048), pname: "rsa2048", subs: vec![(KeyType::Rsa(2048), false, "rsa2048")], uids: 1, pass: None });
        v.push(Shape { ver: KeyVersion::V4, primary: KeyType::Dsa(pgp::composed::DsaKeySize::B2048), pname: "dsa", subs: vec![enc4.clone()], uids: 1, pass: None });
        // no primary user id, plain user ids only (v6)
        v.push(Shape { ver: KeyVersion::V6, primary: KeyType::Ed25519, pname: "ed25519", subs: vec![(KeyType::X25519, false, "x25519")], uids: 102, pass: None });
        // subkeys locked with a passphrase of their own (the primary unlocked, or locked with another one)
        v.push(Shape { ver: KeyVersion::V4, primary: KeyType::Ed25519Legacy, pname: "eddsa-legacy", subs: vec![(KeyType::ECDH(ECCCurve::Curve25519Legacy), false, "cv25519"), (KeyType::Ed25519Legacy, true, "sign-eddsa-legacy-ownpw")], uids: 1, pass: None });
        v.push(Shape { ver: KeyVersion::V6, primary: KeyType::Ed25519, pname: "ed25519", subs: vec![(KeyType::X25519, false, "x25519-ownpw"), (KeyType::Ed25519, true, "sign-ed25519-ownpw")], uids: 1, pass: Some("pass") });
        // RSA moduli whose size is not a whole number of octets (any size from 2048 to 4096 is accepted): signature values and
        // session keys are then often shorter than the modulus (appended last: LEADING_ZERO_SEEDS names shapes by index)
        v.push(Shape { ver: KeyVersion::V4, primary: KeyType::Rsa(2049), pname: "rsa2049", subs: vec![(KeyType::Rsa(2052), false, "rsa2052")], uids: 2, pass: None });
        v.push(Shape { ver: KeyVersion::V6, primary: KeyType::Rsa(2055), pname: "rsa2055", subs: vec![(KeyType::Rsa(2049), true, "sign-rsa2049"), (KeyType::X25519, false, "x25519")], uids: 1, pass: None });
        v
    };
    if cli.mode == "replay" {
        if cli.rest.len() >= 3 && cli.rest[0] == "gen" {
            let seed: u64 = cli.rest[2].parse().unwrap_or(1);
            for sh in &shapes_all {
                let name = format!("{}-{}{}", if sh.ver == KeyVersion::V6 { "v6" } else { "v4" }, sh.pname, sh.subs.iter().map(|s| format!("+{}", s.2)).collect::<String>());
                if name == cli.rest[1] && sh.uids.to_string() == cli.rest.get(3).cloned().unwrap_or_default() && sh.pass.unwrap_or("") == cli.rest.get(4).map(|s| s.as_str()).unwrap_or("") { cx.one(sh, seed); }
            }
        }
        if cli.rest.len() >= 3 && cli.rest[0] == "gen-many" {
            if let (Ok(si), Ok(seed)) = (cli.rest[1].parse::<usize>(), cli.rest[2].parse::<u64>()) { if let Some(sh) = shapes_all.get(si) { let name = format!("{}-{}", if sh.ver == KeyVersion::V6 { "v6" } else { "v4" }, sh.pname); many(&mut cx, sh, si, &name, seed); } }
        }
        cx.out.finish(); return;
    }
    let thorough = cli.tier == "thorough";
    // `c07 gen seeds <n>`: list, per shape, the seeds among the first n whose unprotected secret scalars start with a zero
    // octet (used once to fill LEADING_ZERO_SEEDS below; not part of a check run)
    if cli.tier == "seeds" {
        for (si, sh) in shapes_all.iter().enumerate() {
            if sh.pass.is_some() || matches!(sh.primary, KeyType::Rsa(_) | KeyType::Dsa(_)) { continue; }
            let mut found = Vec::new();
            for s in 0..cli.seed.max(1) * 1000 {
                let seed = 100_000 + s;
                let mut probe = Ctx { out: Out::new() };
                let before = 0;
                let _ = before;
                // cheap probe: generate and look at the scalars only
                let mut subs = Vec::new();
                for (kt, sign, _) in &sh.subs { let mut b = SubkeyParamsBuilder::default(); b.version(sh.ver).key_type(kt.clone()); if *sign { b.can_sign(true); } else { b.can_encrypt(caps_of(sh, subs.len())); } subs.push(b.build().unwrap()); }
                let mut p = SecretKeyParamsBuilder::default();
                p.version(sh.ver).key_type(sh.primary.clone()).can_certify(true).can_sign(true).subkeys(subs);
                if has_primary_uid(sh) { p.primary_user_id(format!("primary {seed} <p{seed}@example.org>")); }
                if plain_uids(sh) >= 1 { p.user_ids((1..=plain_uids(sh)).map(|i| format!("extra {i} <e{i}@example.org>")).collect()); }
                let Ok(params) = p.build() else { break; };
                let Ok(key) = params.generate(Rng::new(seed)) else { continue; };
                let mut kts: Vec<(Vec<u8>, Vec<u8>, PublicKeyAlgorithm, KeyType)> = vec![(key.primary_key.to_bytes().unwrap_or_default(), key.primary_key.public_key().to_bytes().unwrap_or_default(), key.primary_key.algorithm(), sh.primary.clone())];
                for (sub, spec) in key.secret_subkeys.iter().zip(sh.subs.iter()) { kts.push((sub.key.to_bytes().unwrap_or_default(), sub.key.public_key().to_bytes().unwrap_or_default(), sub.key.algorithm(), spec.0.clone())); }
                for (body, pubb, alg, kt) in kts {
                    let Some(n) = scalar_len(alg, &kt) else { continue; };
                    if body.len() < pubb.len() + 3 { continue; }
                    let m = &body[pubb.len() + 1..];
                    let bits = u16::from_be_bytes([m[0], m[1]]) as usize;
                    if bits.div_ceil(8) < n { found.push(seed); break; }
                }
                drop(probe);
                if found.len() >= 4 { break; }
            }
            eprintln!("shape {si}: {found:?}");
        }
        return;
    }
    // seeds found by that search: keys whose secret scalar (primary or subkey) has a leading zero octet, so that the
    // 1-in-256 case does not wait for luck in a quick run
    const LEADING_ZERO_SEEDS: &[(usize, &[u64])] = &[(0, &[100514, 100520, 100544, 101304]), (2, &[100054, 100055, 100121, 100491]), (3, &[100012, 100053, 100153, 100349]), (5, &[100514, 100520]), (10, &[100035, 100152, 100233, 100380])];
    for (si, seeds) in LEADING_ZERO_SEEDS { for s in *seeds { cx.one(&shapes_all[*si], *s); } }
    for sh in &shapes_all {
        let slow = matches!(sh.primary, KeyType::Rsa(_) | KeyType::Dsa(_));
        let n: u64 = if slow { if thorough { 6 } else { 1 } } else if thorough { 400 } else { 60 };
        for s in 0..n { cx.one(sh, cli.seed * 100_000 + s); }
    }
    // ---- the 1-in-256 cases of the cheap shapes: a generated key is written and read back for many seeds (a secret value
    //      whose first or last octet happens to be zero shows only then); nothing else is checked here, so a seed costs well
    //      under a millisecond
    {
        let n: u64 = if thorough { 8000 } else { 1800 };
        for si in [0usize, 7, 2] {
            let sh = &shapes_all[si];
            let n = if si == 2 { n / 3 } else { n };
            let name = format!("{}-{}", if sh.ver == KeyVersion::V6 { "v6" } else { "v4" }, sh.pname);
            for s in 0..n {
                many(&mut cx, sh, si, &name, 700_000 + cli.seed * 100_000 + s);
            }
        }
    }
    cx.out.finish();
}
